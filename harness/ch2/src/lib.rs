//! Shared by the C16 and C17 harnesses: HTTP/2 frames on the wire (RFC 7540 section 4.1) and an HPACK
//! encoder (RFC 7541) whose every representation choice is explicit, so that the Gallina side can
//! reproduce the same bytes from the same abstract description.
use hnv_common::*;
use std::collections::VecDeque;

mod gen_huffman;
pub use gen_huffman::HUFFMAN_CODE_TABLE;

pub const PREFACE: &[u8] = b"PRI * HTTP/2.0\r\n\r\nSM\r\n\r\n";

pub const T_DATA: u8 = 0;
pub const T_HEADERS: u8 = 1;
pub const T_PRIORITY: u8 = 2;
pub const T_RST: u8 = 3;
pub const T_SETTINGS: u8 = 4;
pub const T_PUSH: u8 = 5;
pub const T_PING: u8 = 6;
pub const T_GOAWAY: u8 = 7;
pub const T_WINDOW_UPDATE: u8 = 8;
pub const T_CONTINUATION: u8 = 9;

pub const F_END_STREAM: u8 = 0x1;
pub const F_END_HEADERS: u8 = 0x4;
pub const F_PADDED: u8 = 0x8;
pub const F_PRIORITY: u8 = 0x20;

#[derive(Clone, Debug)]
pub struct Frame { pub ty: u8, pub flags: u8, pub rsv: bool, pub stream: u32, pub payload: Vec<u8> }

impl Frame {
    pub fn new(ty: u8, flags: u8, stream: u32, payload: Vec<u8>) -> Frame { Frame { ty, flags, rsv: false, stream, payload } }
    pub fn wire(&self) -> Vec<u8> {
        let l = self.payload.len() as u32;
        let mut v = vec![(l >> 16) as u8, (l >> 8) as u8, l as u8, self.ty, self.flags];
        let s = (self.stream & 0x7FFF_FFFF) | if self.rsv { 0x8000_0000 } else { 0 };
        v.extend_from_slice(&s.to_be_bytes());
        v.extend_from_slice(&self.payload);
        v
    }
    /// `<type>.<flags>.<reserved bit>.<stream>.<payload hex>` (see coq/Extract/EC17.v)
    pub fn tok(&self) -> String {
        format!("{}.{}.{}.{}.{}", self.ty, self.flags, self.rsv as u8, self.stream & 0x7FFF_FFFF, hex(&self.payload))
    }
}
pub fn frames_tok(fs: &[Frame]) -> String {
    if fs.is_empty() { "-".into() } else { fs.iter().map(|f| f.tok()).collect::<Vec<_>>().join(";") }
}
pub fn frames_wire(pre: bool, fs: &[Frame]) -> Vec<u8> {
    let mut v = if pre { PREFACE.to_vec() } else { vec![] };
    for f in fs { v.extend(f.wire()); }
    v
}

/// printable ASCII except '%' stays, everything else %xx (same as `esc` in EC17.v / EC16.v)
pub fn esc(s: &[u8]) -> String {
    let mut o = String::new();
    for &b in s {
        if (33..=126).contains(&b) && b != b'%' { o.push(b as char) } else { o.push_str(&format!("%{:02x}", b)) }
    }
    o
}

// ------------------------------------------------------------------ HPACK encoding
/// RFC 7541 Appendix A (independent transcription; entry 15 is accept-charset)
pub const STATIC_TABLE: [(&str, &str); 61] = [
    (":authority", ""), (":method", "GET"), (":method", "POST"), (":path", "/"), (":path", "/index.html"),
    (":scheme", "http"), (":scheme", "https"), (":status", "200"), (":status", "204"), (":status", "206"),
    (":status", "304"), (":status", "400"), (":status", "404"), (":status", "500"), ("accept-charset", ""),
    ("accept-encoding", "gzip, deflate"), ("accept-language", ""), ("accept-ranges", ""), ("accept", ""),
    ("access-control-allow-origin", ""), ("age", ""), ("allow", ""), ("authorization", ""), ("cache-control", ""),
    ("content-disposition", ""), ("content-encoding", ""), ("content-language", ""), ("content-length", ""),
    ("content-location", ""), ("content-range", ""), ("content-type", ""), ("cookie", ""), ("date", ""), ("etag", ""),
    ("expect", ""), ("expires", ""), ("from", ""), ("host", ""), ("if-match", ""), ("if-modified-since", ""),
    ("if-none-match", ""), ("if-range", ""), ("if-unmodified-since", ""), ("last-modified", ""), ("link", ""),
    ("location", ""), ("max-forwards", ""), ("proxy-authenticate", ""), ("proxy-authorization", ""), ("range", ""),
    ("referer", ""), ("refresh", ""), ("retry-after", ""), ("server", ""), ("set-cookie", ""),
    ("strict-transport-security", ""), ("transfer-encoding", ""), ("user-agent", ""), ("vary", ""), ("via", ""),
    ("www-authenticate", ""),
];

/// RFC 7541 5.1: integer with an n-bit prefix; `first` holds the pattern bits above the prefix
pub fn enc_int(v: usize, prefix: u8, first: u8, out: &mut Vec<u8>) {
    let mask = (1usize << prefix) - 1;
    if v < mask { out.push(first | v as u8); return; }
    out.push(first | mask as u8);
    let mut r = v - mask;
    while r >= 128 { out.push((r % 128) as u8 | 128); r /= 128; }
    out.push(r as u8);
}

/// RFC 7541 5.2 / Appendix B: Huffman code of every octet, padded with 1 bits to an octet boundary
pub fn huff_encode(s: &[u8]) -> Vec<u8> {
    let mut out = Vec::new();
    let mut acc: u64 = 0;
    let mut n: u32 = 0;
    for &b in s {
        let (code, len) = HUFFMAN_CODE_TABLE[b as usize];
        acc = (acc << len) | code as u64;
        n += len as u32;
        while n >= 8 { out.push((acc >> (n - 8)) as u8); n -= 8; acc &= (1u64 << n) - 1; }
    }
    if n > 0 { let pad = 8 - n; out.push(((acc << pad) | ((1u64 << pad) - 1)) as u8); }
    out
}

pub fn enc_str(s: &[u8], huff: bool, out: &mut Vec<u8>) {
    if huff { let h = huff_encode(s); enc_int(h.len(), 7, 0x80, out); out.extend(h); }
    else { enc_int(s.len(), 7, 0, out); out.extend_from_slice(s); }
}

#[derive(Clone, Copy, Debug, PartialEq)]
pub enum Mode { Incremental, Without, Never }
impl Mode {
    pub fn letter(self) -> char { match self { Mode::Incremental => 'i', Mode::Without => 'w', Mode::Never => 'n' } }
}

/// one element of a header block, every choice explicit
#[derive(Clone, Debug)]
pub enum Item {
    /// dynamic table size update
    SizeUpdate(usize),
    /// indexed header field; (name, value) is what the index denotes at that point
    Indexed { idx: usize, name: Vec<u8>, value: Vec<u8> },
    /// literal with the name taken from table entry `idx`
    LitIdx { mode: Mode, idx: usize, name: Vec<u8>, value: Vec<u8>, hv: bool },
    /// literal with a literal name
    LitNew { mode: Mode, name: Vec<u8>, value: Vec<u8>, hn: bool, hv: bool },
}

impl Item {
    pub fn header(&self) -> Option<(Vec<u8>, Vec<u8>)> {
        match self {
            Item::SizeUpdate(_) => None,
            Item::Indexed { name, value, .. } | Item::LitIdx { name, value, .. } | Item::LitNew { name, value, .. } => Some((name.clone(), value.clone())),
        }
    }
    pub fn encode(&self, out: &mut Vec<u8>) {
        match self {
            Item::SizeUpdate(n) => enc_int(*n, 5, 0x20, out),
            Item::Indexed { idx, .. } => enc_int(*idx, 7, 0x80, out),
            Item::LitIdx { mode, idx, value, hv, .. } => {
                match mode { Mode::Incremental => enc_int(*idx, 6, 0x40, out), Mode::Without => enc_int(*idx, 4, 0x00, out), Mode::Never => enc_int(*idx, 4, 0x10, out) }
                enc_str(value, *hv, out);
            }
            Item::LitNew { mode, name, value, hn, hv } => {
                out.push(match mode { Mode::Incremental => 0x40, Mode::Without => 0x00, Mode::Never => 0x10 });
                enc_str(name, *hn, out);
                enc_str(value, *hv, out);
            }
        }
    }
    /// `U<n>` | `X<idx>:<name>:<value>` | `L<mode><idx>:<name>:<value>:<hv>` | `N<mode>:<name>:<value>:<hn><hv>`   (hex or `-`)
    pub fn tok(&self) -> String {
        match self {
            Item::SizeUpdate(n) => format!("U{}", n),
            Item::Indexed { idx, name, value } => format!("X{}:{}:{}", idx, hex_or_dash(name), hex_or_dash(value)),
            Item::LitIdx { mode, idx, name, value, hv } => format!("L{}{}:{}:{}:{}", mode.letter(), idx, hex_or_dash(name), hex_or_dash(value), *hv as u8),
            Item::LitNew { mode, name, value, hn, hv } => format!("N{}:{}:{}:{}{}", mode.letter(), hex_or_dash(name), hex_or_dash(value), *hn as u8, *hv as u8),
        }
    }
}
pub fn encode_items(items: &[Item]) -> Vec<u8> { let mut o = Vec::new(); for i in items { i.encode(&mut o); } o }
pub fn items_tok(items: &[Item]) -> String { if items.is_empty() { "-".into() } else { items.iter().map(|i| i.tok()).collect::<Vec<_>>().join(",") } }

/// encoder-side view of the table (RFC 7541 section 2.3, 4): static table then dynamic table, newest first
pub struct Table { pub dynamic: VecDeque<(Vec<u8>, Vec<u8>)>, pub size: usize, pub max: usize }
impl Table {
    pub fn new() -> Table { Table { dynamic: VecDeque::new(), size: 0, max: 4096 } }
    pub fn len(&self) -> usize { 61 + self.dynamic.len() }
    pub fn get(&self, idx: usize) -> Option<(Vec<u8>, Vec<u8>)> {
        if idx == 0 { None }
        else if idx <= 61 { let (n, v) = STATIC_TABLE[idx - 1]; Some((n.as_bytes().to_vec(), v.as_bytes().to_vec())) }
        else { self.dynamic.get(idx - 62).cloned() }
    }
    fn evict(&mut self) { while self.size > self.max { let (n, v) = self.dynamic.pop_back().unwrap(); self.size -= n.len() + v.len() + 32; } }
    pub fn insert(&mut self, n: &[u8], v: &[u8]) { self.size += n.len() + v.len() + 32; self.dynamic.push_front((n.to_vec(), v.to_vec())); self.evict(); }
    pub fn resize(&mut self, m: usize) { self.max = m; self.evict(); }
    pub fn find_all(&self, n: &[u8], v: &[u8]) -> (Vec<usize>, Vec<usize>) {
        let (mut full, mut name) = (vec![], vec![]);
        for i in 1..=self.len() { let (a, b) = self.get(i).unwrap(); if a == n { name.push(i); if b == v { full.push(i); } } }
        (full, name)
    }
    pub fn apply(&mut self, it: &Item) {
        match it {
            Item::SizeUpdate(n) => self.resize(*n),
            Item::LitIdx { mode: Mode::Incremental, name, value, .. } | Item::LitNew { mode: Mode::Incremental, name, value, .. } => self.insert(name, value),
            _ => {}
        }
    }
}

pub struct EncOpts { pub huffman: u64, pub indexing: u64, pub use_index: u64, pub size_updates: u64, pub avoid15: bool }
impl EncOpts { pub fn mixed() -> EncOpts { EncOpts { huffman: 50, indexing: 50, use_index: 70, size_updates: 10, avoid15: false } } }

/// random but valid representation choices for a header list (percentages in `o`)
pub fn choose_items(r: &mut Rng, headers: &[(Vec<u8>, Vec<u8>)], o: &EncOpts, t: &mut Table) -> Vec<Item> {
    let mut items = Vec::new();
    for (n, v) in headers {
        if r.chance(o.size_updates, 100) {
            let m = *r.pick(&[0usize, 1, 31, 32, 40, 64, 100, 200, 4096, 4097, 65536, 1 << 20]);
            let it = Item::SizeUpdate(m); t.apply(&it); items.push(it);
        }
        let (mut full, mut name) = t.find_all(n, v);
        if o.avoid15 { full.retain(|&i| i != 15); name.retain(|&i| i != 15); }
        let mode = if r.chance(o.indexing, 100) { Mode::Incremental } else if r.chance(1, 2) { Mode::Without } else { Mode::Never };
        let it = if !full.is_empty() && r.chance(o.use_index, 100) {
            Item::Indexed { idx: *r.pick(&full), name: n.clone(), value: v.clone() }
        } else if !name.is_empty() && r.chance(o.use_index, 100) {
            Item::LitIdx { mode, idx: *r.pick(&name), name: n.clone(), value: v.clone(), hv: r.chance(o.huffman, 100) }
        } else {
            Item::LitNew { mode, name: n.clone(), value: v.clone(), hn: r.chance(o.huffman, 100), hv: r.chance(o.huffman, 100) }
        };
        t.apply(&it);
        items.push(it);
    }
    if r.chance(o.size_updates, 200) { let it = Item::SizeUpdate(*r.pick(&[0usize, 64, 4096])); t.apply(&it); items.push(it); }
    items
}

// ------------------------------------------------------------------ framing of a header block
#[derive(Clone, Debug)]
pub struct Framing {
    /// Some(padding bytes): PADDED with pad length = len (< 256)
    pub pad: Option<Vec<u8>>,
    /// Some(5 bytes): PRIORITY flag with E+dependency+weight
    pub prio: Option<[u8; 5]>,
    /// split points: the block is cut into cuts.len()+1 fragments (HEADERS + CONTINUATIONs)
    pub cuts: Vec<usize>,
    /// extra flag bits ORed into the HEADERS frame (END_STREAM, undefined bits), never 0x04/0x08/0x20
    pub extra_h: u8,
    /// extra flag bits ORed into every CONTINUATION frame, never 0x04
    pub extra_c: u8,
}
impl Framing {
    pub fn plain() -> Framing { Framing { pad: None, prio: None, cuts: vec![], extra_h: 0, extra_c: 0 } }
    /// `<pad hex|*>/<prio hex|*>/<cut,cut,..|*>/<extra_h>/<extra_c>`
    pub fn tok(&self) -> String {
        format!("{}/{}/{}/{}/{}",
            match &self.pad { None => "*".into(), Some(p) => hex_or_dash(p) },
            match &self.prio { None => "*".into(), Some(p) => hex(p) },
            if self.cuts.is_empty() { "*".into() } else { self.cuts.iter().map(|c| c.to_string()).collect::<Vec<_>>().join(",") },
            self.extra_h, self.extra_c)
    }
}

/// HEADERS (+ CONTINUATION) frames carrying `block` on `stream` (RFC 7540 6.2, 6.10)
pub fn frames_of_block(block: &[u8], stream: u32, fr: &Framing) -> Vec<Frame> {
    let mut frags: Vec<&[u8]> = Vec::new();
    let mut last = 0;
    for &c in &fr.cuts { frags.push(&block[last..c]); last = c; }
    frags.push(&block[last..]);
    let n = frags.len();
    let mut out = Vec::new();
    for (i, f) in frags.iter().enumerate() {
        let end = if i + 1 == n { F_END_HEADERS } else { 0 };
        if i == 0 {
            let mut p = Vec::new();
            let mut flags = fr.extra_h | end;
            if let Some(pad) = &fr.pad { flags |= F_PADDED; p.push(pad.len() as u8); }
            if let Some(pr) = &fr.prio { flags |= F_PRIORITY; p.extend_from_slice(pr); }
            p.extend_from_slice(f);
            if let Some(pad) = &fr.pad { p.extend_from_slice(pad); }
            out.push(Frame::new(T_HEADERS, flags, stream, p));
        } else {
            out.push(Frame::new(T_CONTINUATION, fr.extra_c | end, stream, f.to_vec()));
        }
    }
    out
}

pub fn random_framing(r: &mut Rng, block_len: usize) -> Framing {
    let mut fr = Framing::plain();
    if r.chance(1, 3) {
        let n = *r.pick(&[0usize, 1, 2, 7, 100, 255]);
        fr.pad = Some(if r.chance(3, 4) { vec![0; n] } else { r.bytes(n) });
    }
    if r.chance(1, 3) {
        let mut p = [0u8; 5];
        let b = r.bytes(5); p.copy_from_slice(&b);
        if r.chance(1, 2) { p = [0x80, 0, 0, 0, 0xff]; }
        fr.prio = Some(p);
    }
    if r.chance(1, 3) && block_len > 0 {
        let k = r.range(1, 3) as usize;
        let mut cuts: Vec<usize> = (0..k).map(|_| r.below(block_len as u64 + 1) as usize).collect();
        cuts.sort();
        fr.cuts = cuts;
    }
    if r.chance(1, 4) { fr.extra_h = *r.pick(&[0x1u8, 0x2, 0x10, 0x40, 0x80, 0xd3]); }
    if r.chance(1, 8) { fr.extra_c = *r.pick(&[0x1u8, 0x8, 0x20, 0xfb]); }
    fr
}

// ------------------------------------------------------------------ control frames
pub fn settings_frame(pairs: &[(u16, u32)]) -> Frame {
    let mut p = Vec::new();
    for (i, v) in pairs { p.extend_from_slice(&i.to_be_bytes()); p.extend_from_slice(&v.to_be_bytes()); }
    Frame::new(T_SETTINGS, 0, 0, p)
}
pub fn window_update(stream: u32, inc: u32, rsv: bool) -> Frame {
    let w = (inc & 0x7FFF_FFFF) | if rsv { 0x8000_0000 } else { 0 };
    Frame::new(T_WINDOW_UPDATE, 0, stream, w.to_be_bytes().to_vec())
}
pub fn priority_frame(stream: u32, excl: bool, dep: u32, weight: u8) -> Frame {
    let w = (dep & 0x7FFF_FFFF) | if excl { 0x8000_0000 } else { 0 };
    let mut p = w.to_be_bytes().to_vec(); p.push(weight);
    Frame::new(T_PRIORITY, 0, stream, p)
}

pub fn random_settings(r: &mut Rng) -> Vec<(u16, u32)> {
    let n = *r.pick(&[0usize, 1, 1, 2, 3, 4, 6, 7, 10]);
    (0..n).map(|_| {
        let id = if r.chance(3, 4) { *r.pick(&[1u16, 2, 3, 4, 5, 6, 8, 9]) } else { *r.pick(&[0u16, 7, 10, 16, 255, 256, 0x0a0a, 65535]) };
        let v = match r.below(5) { 0 => 0, 1 => u32::MAX, 2 => *r.pick(&[1u32, 100, 1000, 4096, 16384, 65535, 65536, 262144, 6291456, 0x7fff_ffff, 0x8000_0000]), _ => r.next() as u32 };
        (id, v)
    }).collect()
}

/// a control frame that does not belong to any request stream's header block
pub fn random_control(r: &mut Rng) -> Frame {
    match r.below(8) {
        0 => settings_frame(&random_settings(r)),
        1 => Frame::new(T_SETTINGS, 1, 0, vec![]),
        2 => window_update(if r.chance(2, 3) { 0 } else { r.range(1, 9) as u32 }, match r.below(4) { 0 => 1, 1 => 0x7fff_ffff, 2 => 15663105, _ => r.next() as u32 }, r.chance(1, 3)),
        3 | 4 => priority_frame(*r.pick(&[1u32, 3, 5, 7, 9, 11, 0, 0x7fff_ffff]), r.chance(1, 2), *r.pick(&[0u32, 3, 7, 0x7fff_ffff, 12345]), *r.pick(&[0u8, 1, 15, 100, 200, 254, 255])),
        5 => Frame::new(T_PING, *r.pick(&[0u8, 1]), 0, r.bytes(8)),
        6 => Frame::new(*r.pick(&[T_GOAWAY, T_RST, 10, 11, 0x42, 0xff]), r.next() as u8, if r.chance(1, 2) { 0 } else { r.range(1, 9) as u32 }, { let n = r.below(12) as usize; r.bytes(n) }),
        _ => { let mut f = Frame::new(T_DATA, 0, 0, { let n = r.below(6) as usize; r.bytes(n) }); f.rsv = r.chance(1, 2); f }
    }
}
