//! C07 concrete kinds:  `<a> L <cap> <conn>:<t ms>:<frame hex> ...` (TLS analyzer) and
//! `<a> T <cap> ...` (TCP analyzer): the frames in trace order through ONE fresh real analyzer with a table of
//! capacity <cap>; one canonical token per packet joined by ';' (grammar and formats: coq/Extract/EC07.v,
//! coq/Model/TlsAnalyzer.v tls_out_line, coq/Model/TcpAnalyzer.v tcp_out_line).  Formats reused:
//! EC08 packet-level line (harness/c08 client_token), EC03 result line (harness/c03 show), EC19 uptime token.
use cflow::*;
use hnv_common::pkt::*;
use hnv_common::*;
use huginn_net_db::Database;
use huginn_net_tls::tls::TlsVersion;
use huginn_net_tls::ObservableTlsClient;
use std::net::IpAddr;
use ttl_cache::TtlCache;

pub type Ev = (usize, u64, Vec<u8>); // connection index, arrival time ms, frame

pub fn parse(line: &str) -> (char, usize, Vec<Ev>) {
    let toks: Vec<&str> = line.split(' ').collect();
    let kind = toks[1].chars().next().unwrap();
    let cap: usize = toks[2].parse().unwrap();
    let evs = toks[3..].iter().map(|t| { let p: Vec<&str> = t.split(':').collect(); (p[0].parse().unwrap(), p[1].parse().unwrap(), unhex(p[2])) }).collect();
    (kind, cap, evs)
}
pub fn line(kind: char, cap: usize, tr: &[(usize, Frame)]) -> String {
    let mut s = format!("{} {} {}", if kind == 'L' { "l" } else { "t" }, kind, cap);
    for (ci, (f, t)) in tr { s.push_str(&format!(" {}:{}:{}", ci, t, hex(f))); }
    s
}

fn ip_hex(a: &IpAddr) -> String { match a { IpAddr::V4(x) => hex(&x.octets()), IpAddr::V6(x) => hex(&x.octets()) } }

// ---- TLS: the EC08 packet-level token (same text as harness/c08 client_token with fmts=*) ----
fn csv(l: &[u16]) -> String { if l.is_empty() { "-".into() } else { l.iter().map(|c| format!("{:04x}", c)).collect::<Vec<_>>().join(",") } }
fn esc(s: &str) -> String {
    let mut o = String::new();
    for &b in s.as_bytes() { if (0x21..=0x7e).contains(&b) { o.push(b as char) } else { o.push_str(&format!("\\x{:02x}", b)) } }
    o
}
fn opt_hex(o: Option<&[u8]>) -> String { match o { Some(b) => format!(":{}", hex(b)), None => "-".into() } }
fn ver(v: TlsVersion) -> String { match v { TlsVersion::Unknown(c) => format!("{}:{:04x}", v, c), v => format!("{}", v) } }
fn client_token(c: &ObservableTlsClient) -> String {
    format!(
        "{}|{}|{}|{}|ver={}|sni={}|alpn={}|ciphers={}|exts={}|sigalgs={}|groups={}|fmts=*",
        esc(c.ja4.full.value()), esc(c.ja4.raw.value()), esc(c.ja4_original.full.value()), esc(c.ja4_original.raw.value()), ver(c.version),
        opt_hex(c.sni.as_ref().map(|x| x.as_bytes())), opt_hex(c.alpn.as_ref().map(|x| x.as_bytes())),
        csv(&c.cipher_suites), csv(&c.extensions), csv(&c.signature_algorithms), csv(&c.elliptic_curves)
    )
}

/// pool-result token (C10 kind L): endpoints, then the signature fields, then the four JA4 strings, so that
/// sorting whole tokens never depends on a hash value (equal fields imply equal fingerprints)
pub fn tls_pool_token(o: &huginn_net_tls::output::TlsClientOutput) -> String {
    let c = &o.sig;
    format!(
        "{}:{}>{}:{}|ver={}|sni={}|alpn={}|ciphers={}|exts={}|sigalgs={}|groups={}|fmts=*|{}|{}|{}|{}",
        ip_hex(&o.source.ip), o.source.port, ip_hex(&o.destination.ip), o.destination.port, ver(c.version),
        opt_hex(c.sni.as_ref().map(|x| x.as_bytes())), opt_hex(c.alpn.as_ref().map(|x| x.as_bytes())),
        csv(&c.cipher_suites), csv(&c.extensions), csv(&c.signature_algorithms), csv(&c.elliptic_curves),
        esc(c.ja4.full.value()), esc(c.ja4.raw.value()), esc(c.ja4_original.full.value()), esc(c.ja4_original.raw.value())
    )
}

/// per-packet TLS token of the sequential kinds (EC07 L, EC20 K): endpoints | EC08 packet-level line
pub fn tls_seq_token(o: &huginn_net_tls::output::TlsClientOutput) -> String {
    format!("{}:{}>{}:{}|{}", ip_hex(&o.source.ip), o.source.port, ip_hex(&o.destination.ip), o.destination.port, client_token(&o.sig))
}

pub fn run_tls(cap: usize, evs: &[Ev]) -> String {
    use huginn_net_tls::packet_parser::{parse_packet, IpPacket};
    let mut fl: TtlCache<huginn_net_tls::FlowKey, huginn_net_tls::tls_client_hello_reader::TlsClientHelloReader> = TtlCache::new(cap);
    let mut out = Vec::new();
    for (_, _, f) in evs {
        let r = match parse_packet(f) {
            IpPacket::Ipv4(p) => huginn_net_tls::process::process_ipv4_packet(&p, &mut fl),
            IpPacket::Ipv6(p) => huginn_net_tls::process::process_ipv6_packet(&p, &mut fl),
            IpPacket::None => Ok(None), // lib.rs process_packet
        };
        out.push(match r {
            Err(_) => "ERR".to_string(),
            Ok(None) => "-".to_string(),
            Ok(Some(o)) => tls_seq_token(&o),
        });
    }
    out.join(";")
}

// ---- TCP: EC03 result line + EC19 uptime token ----
pub fn up(u: &huginn_net_tcp::UptimeOutput) -> String {
    format!("{} {} {} {} {} {}", u.role, u.freq.round() as u64, u.days, u.hours, u.min, u.up_mod_days)
}
pub fn run_tcp(db: &Database, cap: usize, evs: &[Ev]) -> String {
    use huginn_net_tcp::packet_parser::{parse_packet, IpPacket};
    let m = huginn_net_tcp::SignatureMatcher::new(db);
    let mut tr: TtlCache<huginn_net_tcp::ConnectionKey, huginn_net_tcp::TcpTimestamp> = TtlCache::new(cap);
    let mut out = Vec::new();
    for (_, t, f) in evs {
        set_clock(*t);
        let r = match parse_packet(f) {
            IpPacket::Ipv4(p) => huginn_net_tcp::process::process_ipv4_packet(&p, &mut tr, Some(&m)).map(Some),
            IpPacket::Ipv6(p) => huginn_net_tcp::process::process_ipv6_packet(&p, &mut tr, Some(&m)).map(Some),
            IpPacket::None => Ok(None), // lib.rs process_packet: an empty result
        };
        clear_clock();
        out.push(match r {
            Err(_) => "ERR".to_string(),
            Ok(None) => "syn=- synack=- mtu=- link=- up=-".to_string(),
            Ok(Some(a)) => {
                let syn = a.syn.as_ref().map(|s| s.sig.matching.to_string()).unwrap_or_else(|| "-".into());
                let synack = a.syn_ack.as_ref().map(|s| s.sig.matching.to_string()).unwrap_or_else(|| "-".into());
                let mtu = a.mtu.as_ref().map(|m| m.mtu.to_string()).unwrap_or_else(|| "-".into());
                let link = a.mtu.as_ref().and_then(|m| m.link.link.as_ref()).map(|l| hex(l.as_bytes())).unwrap_or_else(|| "-".into());
                let u = match (&a.client_uptime, &a.server_uptime) {
                    (None, None) => "-".to_string(),
                    (Some(c), None) => up(c),
                    (None, Some(s)) => up(s),
                    (Some(c), Some(s)) => format!("{},{}", up(c), up(s)),
                };
                format!("syn={} synack={} mtu={} link={} up={}", syn, synack, mtu, link, u)
            }
        });
    }
    out.join(";")
}

// ---- generators for the concrete kinds ----
/// a connection whose segments carry SEVERAL timestamp options / odd option layouts (the TIMESTAMPS arm of
/// visit_tcp calls check_ts_tcp once per option with >= 8 payload bytes)
pub fn odd_ts_connection(r: &mut Rng, v6: bool, id: u64, t0: u64) -> Vec<Frame> {
    let cport = 21000 + (id % 20000) as u16; let sport = *r.pick(&[80u16, 443, 22, 8080]);
    let c4 = [10, 9, (id / 200) as u8, 1 + (id % 200) as u8]; let s4 = [93, 184, 216, 7];
    let mut c6 = [0u8; 16]; c6[0] = 0x20; c6[1] = 1; c6[13] = 9; c6[14] = (id / 200) as u8; c6[15] = 1 + (id % 200) as u8;
    let mut s6 = [0u8; 16]; s6[0] = 0x20; s6[1] = 1; s6[7] = 9; s6[15] = 7;
    let hz = *r.pick(&[100u64, 250, 1000]);
    let ts0 = 50_000 + r.below(1_000_000);
    let mut now = t0;
    let mut out = Vec::new();
    let n = 3 + r.below(4);
    for i in 0..n {
        let from_client = i == 0 || r.chance(2, 3);
        let flags = if i == 0 { SYN } else if i == 1 && !from_client { SYN | ACK } else { *r.pick(&[ACK, PSH | ACK, FIN | ACK, ACK | 0x40, RST, SYN | FIN, 0]) };
        let mut t = if from_client { Tcp::new(cport, sport, flags) } else { Tcp::new(sport, cport, flags) };
        let tsv = (ts0 + (now - t0) * hz / 1000) as u32;
        let mut opts: Vec<u8> = Vec::new();
        match r.below(7) {
            0 => { opts.extend(opt_ts(tsv, 0)); opts.extend(opt_ts(tsv.wrapping_add(7), 1)); }                       // two full options
            1 => { opts.extend(opt_ts(tsv, 0)); opts.extend(opt_nop()); opts.extend(opt_nop()); opts.extend(opt_ts(tsv.wrapping_add(100_000), 0)); opts.extend(opt_ts(tsv, 3)); }
            2 => { opts.extend_from_slice(&[8, 6]); opts.extend_from_slice(&tsv.to_be_bytes()); opts.extend(opt_ts(tsv, 0)); } // a short one (4 payload bytes) first
            3 => { opts.extend(opt_nop()); opts.extend_from_slice(&[8, 10]); opts.extend_from_slice(&tsv.to_be_bytes()); opts.extend_from_slice(&[0, 0]); } // length runs past the option area
            4 => { opts.extend_from_slice(&[8, 12]); opts.extend_from_slice(&tsv.to_be_bytes()); opts.extend_from_slice(&[0, 0, 0, 1, 9, 9]); } // 10 payload bytes
            5 => { opts.extend(opt_mss(1460)); opts.extend(opt_eol()); opts.extend(opt_ts(tsv, 0)); }               // after EOL: still walked
            _ => { opts.extend(opt_ts(tsv, 0)); }
        }
        t.options = opts;
        if r.chance(1, 4) { t.payload = r.bytes(3); }
        let f = if v6 { let ip = if from_client { Ip6::new(c6, s6) } else { Ip6::new(s6, c6) }; ether6(&ip, &t) }
                else { let ip = if from_client { Ip4::new(c4, s4) } else { Ip4::new(s4, c4) }; ether4(&ip, &t) };
        out.push((f, now));
        now += *r.pick(&[0u64, 10, 24, 25, 26, 40, 100, 1000, 30_000, 600_000, 600_001]);
    }
    out
}

/// flip bytes that are not addresses or ports: IP header fields before the addresses, the TCP header from
/// the data-offset byte on, options and payload; or cut the frame short
pub fn mutate(r: &mut Rng, f: &mut Vec<u8>) {
    if f.len() < 34 { return; }
    let v6 = f[12] == 0x86;
    let ip = 14; let tcp = if v6 { 54 } else { 34 };
    match r.below(5) {
        0 => { let n = r.range(14, f.len() as u64) as usize; f.truncate(n); }
        1 => { let hi = if v6 { ip + 8 } else { ip + 12 }; let i = r.range(ip as u64, hi as u64 - 1) as usize; f[i] ^= 1 << r.below(8); }
        _ => { if f.len() > tcp + 12 { let i = r.range(tcp as u64 + 12, f.len() as u64 - 1) as usize; f[i] ^= 1 << r.below(8); } }
    }
}

/// move the server side of a generated connection to another port (both directions; checksums are not used)
pub fn rewrite_server_port(c: &mut [Frame], new: u16) {
    let Some((first, _)) = c.first() else { return };
    let off = |f: &Vec<u8>| if f[12] == 0x86 { 54 } else { 34 };
    let o = off(first);
    let old = [first[o + 2], first[o + 3]]; // destination port of the opening SYN
    for (f, _) in c.iter_mut() {
        let o = off(f);
        if f.len() < o + 4 { continue; }
        if f[o..o + 2] == old { f[o..o + 2].copy_from_slice(&new.to_be_bytes()); }
        else if f[o + 2..o + 4] == old { f[o + 2..o + 4].copy_from_slice(&new.to_be_bytes()); }
    }
}

// ---- HTTP: per-packet tokens as harness/c09 prints them (EC09 / EC07 kind H) ----
fn render_headers(hs: &[huginn_net_http::http_common::HttpHeader]) -> String {
    hs.iter().map(|h| format!("{}={}", hex(h.name.as_bytes()), hex(h.value.as_deref().unwrap_or("").as_bytes()))).collect::<Vec<_>>().join(",")
}
fn hver(v: &huginn_net_http::http::Version) -> &'static str {
    use huginn_net_http::http::Version;
    match v { Version::V10 => "10", Version::V11 => "11", Version::V20 => "20", Version::V30 => "30", _ => "any" }
}
pub fn http_token(r: &Result<huginn_net_http::HttpAnalysisResult, huginn_net_http::HuginnNetHttpError>) -> String {
    match r {
        Err(_) => "ERR".to_string(),
        Ok(a) => match (&a.http_request, &a.http_response) {
            (None, None) => "-".to_string(),
            (Some(q), None) => format!("Q.{}.{}.{}.{}", hex(q.sig.method.as_deref().unwrap_or("").as_bytes()),
                                       hex(q.sig.uri.as_deref().unwrap_or("").as_bytes()), hver(&q.sig.matching.version), render_headers(&q.sig.headers)),
            (None, Some(p)) => format!("R.{}.{}.{}", hver(&p.sig.matching.version), p.sig.status_code.unwrap_or(0), render_headers(&p.sig.headers)),
            (Some(_), Some(_)) => "BOTH".to_string(),
        },
    }
}
pub fn run_http(cap: usize, evs: &[Ev]) -> String {
    use huginn_net_http::packet_parser::{parse_packet, IpPacket};
    let mut fl: TtlCache<huginn_net_http::http_process::FlowKey, huginn_net_http::http_process::TcpFlow> = TtlCache::new(cap);
    let pr = huginn_net_http::http_process::HttpProcessors::new();
    let mut out = Vec::new();
    for (_, _, f) in evs {
        let r = match parse_packet(f) {
            IpPacket::Ipv4(p) => huginn_net_http::process::process_ipv4_packet(&p, &mut fl, &pr, None),
            IpPacket::Ipv6(p) => huginn_net_http::process::process_ipv6_packet(&p, &mut fl, &pr, None),
            IpPacket::None => Ok(huginn_net_http::HttpAnalysisResult { http_request: None, http_response: None }), // lib.rs process_packet
        };
        out.push(http_token(&r));
    }
    out.join(";")
}
/// changes that keep every TCP payload byte: flags / sequence number / window bits, IP header fields before the
/// addresses, or a truncated frame (kind H stays inside the recogniser's ASCII domain)
pub fn mutate_headers(r: &mut Rng, f: &mut Vec<u8>) {
    if f.len() < 54 { return; }
    let v6 = f[12] == 0x86;
    let ip = 14; let tcp = if v6 { 54 } else { 34 };
    if f.len() < tcp + 20 { return; }
    match r.below(6) {
        0 => { let n = r.range(14, f.len() as u64) as usize; f.truncate(n); }
        1 => { let hi = if v6 { ip + 8 } else { ip + 12 }; let i = r.range(ip as u64, hi as u64 - 1) as usize; f[i] ^= 1 << r.below(8); }
        2 => { f[tcp + 13] ^= *r.pick(&[0x01u8, 0x02, 0x04, 0x10, 0x08]); }                    // FIN / SYN / RST / ACK / PSH
        3 => { let i = tcp + 4 + r.below(4) as usize; f[i] ^= 1 << r.below(8); }               // sequence number
        4 => { f[tcp + 13] = *r.pick(&[0x02u8, 0x12, 0x11, 0x14, 0x04, 0x03, 0x00]); }
        _ => { let i = tcp + 14 + r.below(2) as usize; f[i] ^= 1 << r.below(8); }              // window
    }
}
