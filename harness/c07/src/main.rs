//! C07 harness: connections are analysed in isolation.
//! line:  <kind t|l|h|u> P <conn>:<isolated token>:<t ms>:<frame hex> ...      (packets in interleaved order)
//!   isolated token = result token of that packet when its connection is run ALONE on a fresh analyzer
//!   (computed by `gen` with the real analyzers and embedded in the case).
//!        <kind t|l> <T|L> <cap> <conn>:<t ms>:<frame hex> ...                  (concrete kinds, see concrete.rs / EC07.v)
//! run: the interleaved trace on ONE fresh analyzer -> result tokens joined by ','; in addition the isolated
//!   runs are repeated and compared (direct oracle, `!isolation …`), and after the trace a fresh extra
//!   connection is analysed to check that nothing disabled the analyzer (`!disabled …`).
mod concrete;
use cflow::*;
use hnv_common::*;
use huginn_net_db::Database;

thread_local! { static DB: Database = Database::load_default().expect("db"); }

fn parse(line: &str) -> (Kind, Vec<(usize, String, u64, Vec<u8>)>) {
    let toks: Vec<&str> = line.split(' ').collect();
    let kind = Kind::from(toks[0]);
    let pk = toks[2..].iter().map(|t| { let p: Vec<&str> = t.split(':').collect(); (p[0].parse().unwrap(), p[1].to_string(), p[2].parse().unwrap(), unhex(p[3])) }).collect();
    (kind, pk)
}

fn run(line: &str) -> String {
    if let Some(k) = line.split(' ').nth(1) {
        if k == "L" || k == "T" || k == "H" {
            let (kind, cap, evs) = concrete::parse(line);
            return match kind { 'L' => concrete::run_tls(cap, &evs), 'H' => concrete::run_http(cap, &evs), _ => DB.with(|db| concrete::run_tcp(db, cap, &evs)) };
        }
    }
    let (kind, pk) = parse(line);
    DB.with(|db| {
        let mut a = Seq::new(kind, db, 1000);
        let texts: Vec<String> = pk.iter().map(|(_, _, t, f)| a.packet(f, *t)).collect();
        let mut out = texts.iter().map(|s| tok(s)).collect::<Vec<_>>().join(",");
        // direct oracle: each connection alone
        let nconn = pk.iter().map(|p| p.0).max().map(|m| m + 1).unwrap_or(0);
        for c in 0..nconn {
            let mut iso = Seq::new(kind, db, 1000);
            for (i, (ci, _, t, f)) in pk.iter().enumerate() {
                if *ci != c { continue; }
                let s = iso.packet(f, *t);
                if s != texts[i] {
                    out.push_str(&format!("\t!isolation: connection {} packet #{} alone={:?} interleaved={:?}", c, i, &s.chars().take(300).collect::<String>(), &texts[i].chars().take(300).collect::<String>()));
                    return out;
                }
            }
        }
        // the analyzer still admits a fresh connection after the trace exactly as a fresh analyzer does
        let mut r = Rng::new(77);
        let k = match kind { Kind::Tcp => 2, Kind::Tls => 1, Kind::Http => 0, Kind::Unified => 0 };
        let probe = connection(&mut r, &ConnSpec::new(k, false, 5999), 9_000_000);
        let mut fresh = Seq::new(kind, db, 1000);
        for (f, t) in &probe {
            let x = a.packet(f, *t); let y = fresh.packet(f, *t);
            if x != y { out.push_str(&format!("\t!disabled: probe connection after the trace differs from a fresh analyzer: after={:?} fresh={:?}", &x.chars().take(200).collect::<String>(), &y.chars().take(200).collect::<String>())); break; }
        }
        out
    })
}

/// 2-6 generated connections (some sharing the client host, some on one address) plus, every third case, two
/// sibling connections that share three of the four tuple parts
fn conn_set(r: &mut Rng, case: usize, kind: Kind) -> Vec<Vec<Frame>> {
    let n = 2 + r.below(5) as usize;
    let mut conns = Vec::new();
    for j in 0..n {
        let ck = match kind {
            Kind::Tcp => *r.pick(&[0u64, 1, 2, 3]),
            Kind::Tls => *r.pick(&[1u64, 1, 1, 0]),
            Kind::Http => *r.pick(&[0u64, 3, 3, 0, 2]),
            Kind::Unified => r.below(4),
        };
        // connections may share the client HOST (same address, different port) to stress keying
        let id = if r.chance(1, 3) && j > 0 { (case as u64 * 7 + j as u64) % 200 + 200 * (j as u64 % 3) } else { (case as u64 * 7 + j as u64 * 31) % 5000 };
        let v6 = r.chance(1, 5); let t0 = 1_000_000 + r.below(1000);
        let mut sp = ConnSpec::new(ck, v6, id + j as u64 * 6000); sp.same_host = r.chance(1, 6);
        conns.push(connection(r, &sp, t0));
    }
    // sibling connections: distinct 4-tuples sharing three of the four parts (same client address AND port towards
    // different servers; different clients using one ephemeral port towards one server; one client, two ports, one
    // server; one client port towards two ports of one server)
    if case % 3 == 1 {
        let v6 = r.chance(1, 2); let base = 100 + r.below(50); let port = 30000 + r.below(1000) as u16;
        let ck = match kind { Kind::Tcp => 2u64, Kind::Tls => 1, Kind::Http => 0, Kind::Unified => *r.pick(&[0u64, 1, 2]) };
        let t0 = 1_000_000 + r.below(1000);
        // which single part differs: server address | client address | client port | server port
        let variant = r.below(4);
        for j in 0..2u64 {
            let mut sp = ConnSpec::new(ck, v6, base);
            match variant {
                0 => { sp.cid = Some(base); sp.cport = Some(port); sp.sid = Some(10 + j); }
                1 => { sp.cid = Some(base + j); sp.cport = Some(port); sp.sid = Some(7); }
                _ => { sp.cid = Some(base); sp.cport = Some(if variant == 2 { port + j as u16 } else { port }); sp.sid = Some(7); }
            }
            let mut c = connection(r, &sp, t0 + 60 * j);
            if variant == 3 && j == 1 { concrete::rewrite_server_port(&mut c, *r.pick(&[8443u16, 81, 1024, 1025])); }
            conns.push(c);
        }
    }
    conns
}

fn gen(r: &mut Rng, tier: &Tier, out: &mut Vec<String>) {
    let db = Database::load_default().expect("db");
    for case in 0..tier.scale(240, 4000) {
        let kind = [Kind::Tcp, Kind::Tls, Kind::Http, Kind::Unified][case % 4];
        let conns = conn_set(r, case, kind);
        let n = conns.len();
        // isolated results with the real analyzer
        let iso: Vec<Vec<String>> = conns.iter().map(|c| { let mut a = Seq::new(kind, &db, 1000); c.iter().map(|(f, t)| tok(&a.packet(f, *t))).collect() }).collect();
        let tr = interleave(r, &conns, case % 5 == 0);
        let mut idx = vec![0usize; n];
        let mut line = format!("{} P", kind.tag());
        for (ci, (f, t)) in &tr {
            line.push_str(&format!(" {}:{}:{}:{}", ci, iso[*ci][idx[*ci]], t, hex(f)));
            idx[*ci] += 1;
        }
        out.push(line);
    }
    // concrete kinds: the same connection sets and interleavings through the packet-level MODELS of the TLS and
    // TCP analyzers (coq/Model/TlsAnalyzer.v, TcpAnalyzer.v); SPEC = every connection alone through the model
    for case in 0..tier.scale(800, 5000) {
        let tls = case % 2 == 0;
        let kind = if tls { Kind::Tls } else { Kind::Tcp };
        let mut conns = conn_set(r, case, kind);
        if !tls && case % 4 == 1 {
            // segments with several / truncated / oversized timestamp options, odd flag bytes
            let v6 = r.chance(1, 3);
            let extra = 1 + r.below(2);
            for j in 0..extra { let t0 = 1_000_000 + r.below(500); conns.push(concrete::odd_ts_connection(r, v6, 300 + case as u64 % 100 + 50 * j, t0)); }
        }
        if case % 8 == 6 {
            // malformed stream: bit flips outside addresses and ports, truncated frames
            for c in conns.iter_mut() { for (f, _) in c.iter_mut() { if r.chance(1, 4) { concrete::mutate(r, f); } } }
        }
        // capacity: the analyzers' default size, or a table that just holds / does not hold the trace
        // (eviction is part of the model; SPEC gives no verdict once the trace leaves the capacity)
        let cap = match case % 16 { 3 | 10 => 1 + r.below(if tls { 3 } else { 6 }) as usize, 7 => 2 * conns.len(), _ => 1000 };
        let tr = interleave(r, &conns, case % 5 == 0);
        out.push(concrete::line(if tls { 'L' } else { 'T' }, cap, &tr));
    }
    // kind H: HTTP/1.x connections (requests in 1-4 segments or forced splits, responses in the opposite direction,
    // same-host pairs, sibling connections, one-way IP options) through the packet-level HTTP analyzer model
    for case in 0..tier.scale(400, 3000) {
        let n = 2 + r.below(4) as usize;
        let mut conns: Vec<Vec<Frame>> = Vec::new();
        for j in 0..n {
            let id = (case as u64 * 7 + j as u64 * 31) % 5000 + j as u64 * 6000;
            let mut sp = ConnSpec::new(0, r.chance(1, 5), id);
            sp.same_host = r.chance(1, 6); sp.client_ip_opts = r.chance(1, 6);
            if r.chance(1, 3) { sp.force_segs = Some(2 + r.below(5) as usize); }
            let t0 = 1_000_000 + r.below(1000);
            conns.push(connection(r, &sp, t0));
        }
        if case % 3 == 1 {
            let v6 = r.chance(1, 2); let base = 100 + r.below(50); let port = 30000 + r.below(1000) as u16;
            let variant = r.below(4);
            for j in 0..2u64 {
                let mut sp = ConnSpec::new(0, v6, base);
                match variant {
                    0 => { sp.cid = Some(base); sp.cport = Some(port); sp.sid = Some(10 + j); }
                    1 => { sp.cid = Some(base + j); sp.cport = Some(port); sp.sid = Some(7); }
                    _ => { sp.cid = Some(base); sp.cport = Some(if variant == 2 { port + j as u16 } else { port }); sp.sid = Some(7); }
                }
                let mut c = connection(r, &sp, 1_000_000 + 60 * j);
                if variant == 3 && j == 1 { concrete::rewrite_server_port(&mut c, *r.pick(&[8080u16, 81, 1024, 1025])); }
                conns.push(c);
            }
        }
        if case % 6 == 4 { for c in conns.iter_mut() { for (f, _) in c.iter_mut() { if r.chance(1, 5) { concrete::mutate_headers(r, f); } } } }
        let cap = match case % 16 { 3 | 10 => 1 + r.below(3) as usize, 7 => conns.len(), _ => 1000 };
        let tr = interleave(r, &conns, case % 5 == 0);
        let mut s = format!("h H {}", cap);
        for (ci, (f, t)) in &tr { s.push_str(&format!(" {}:{}:{}", ci, t, hex(f))); }
        out.push(s);
    }
    // kinds L / T / H with TCP Fast Open connections (the SYN carries the complete ClientHello or request) and with
    // connections that use no TCP option at all
    for case in 0..tier.scale(60, 600) {
        let k = ['L', 'T', 'H'][case % 3];
        let n = 2 + r.below(3) as usize;
        let mut conns: Vec<Vec<Frame>> = Vec::new();
        for j in 0..n {
            let ck = match k { 'L' => 1u64, 'H' => 0, _ => *r.pick(&[0u64, 1, 2]) };
            let mut sp = ConnSpec::new(ck, (case / 3 + j) % 3 == 2, (case as u64 * 13 + j as u64 * 47) % 5000 + j as u64 * 6000);
            match r.below(3) { 0 => sp.tfo = true, 1 => sp.bare = true, _ => {} }
            if j == 0 { sp.tfo = k != 'H'; sp.bare = k == 'H'; }
            if r.chance(1, 2) { sp.macs = Some(pick_macs(r)); }   // MAC first octets 0x45.., 0x6X, 1e 00, 00, ff
            let t0 = 1_000_000 + r.below(1000);
            conns.push(connection(r, &sp, t0));
        }
        let tr = interleave(r, &conns, case % 5 == 0);
        if k == 'H' {
            let mut s = "h H 1000".to_string();
            for (ci, (f, t)) in &tr { s.push_str(&format!(" {}:{}:{}", ci, t, hex(f))); }
            out.push(s);
        } else { out.push(concrete::line(k, 1000, &tr)); }
    }
}

fn main() { main_cli(gen, run) }
