//! C11 harness: resources of the real analyzers per packet.  Line grammar: see coq/Extract/EC11.v.
//!
//! What is printed must equal the MODEL column byte for byte, so only model-comparable quantities
//! are printed:
//!  * mode T / R: `TlsClientHelloReader::buffer_len()` (public accessor), summed over the readers of
//!    the harness-owned `TtlCache<FlowKey, TlsClientHelloReader>`; plus a direct oracle `!retained ...` when a
//!    reader holds more than 65539 bytes + the largest segment/chunk seen (mode R: while no parse error was returned);
//!  * mode U: number of records in the harness-owned tracker cache (`iter().count()`);
//!  * mode H: `TcpFlow`'s fields are private, so the harness keeps a SHADOW of what the flow table
//!    must hold, derived only from the packets it sent and the reports it got back (stored bytes and
//!    segments per direction until that direction is reported; flow life cycle; evict-oldest), prints
//!    the shadow, and ties it to the real process with a counting global allocator:
//!        live  >= shadow_bytes                                   (really retained)
//!        live  <= 2*shadow_bytes + 96*shadow_segments + 2048*flows + 16384
//!        alloc >= payload + 2*rebuilt        when the segment is stored (clone + concatenation)
//!        alloc <= 16*(payload + 3*rebuilt) + 256*stored_segments + 65536
//!    where live = bytes allocated and not yet freed by the analyzer since the trace began, alloc =
//!    bytes requested from the allocator while handling the packet (a realloc counts its new size).
//!    A violated inequality is reported as `\t!...` (impl-level oracle).  Constants: Vec<TcpData>
//!    element = 32 bytes with doubling growth; LinkedHashMap node + hash table share per flow;
//!    parser temporaries (from_utf8_lossy of the whole rebuilt stream allocates up to 3x its size, four times per
//!    packet, when the data is not UTF-8).  They are fitted to the unchanged tree (seeds 1..30) with >= 2x margin.
use hnv_common::*;
use std::alloc::{GlobalAlloc, Layout, System};
use std::net::{IpAddr, Ipv4Addr};
use std::sync::atomic::{AtomicI64, AtomicU64, Ordering::Relaxed};

struct Counting;
// counting is per thread (the worker threads of the pool modes must not disturb a measurement): a const-initialised
// thread-local without destructor is safe to read inside the allocator
thread_local! { static ON: std::cell::Cell<bool> = const { std::cell::Cell::new(false) }; }
fn counting() -> bool { ON.try_with(|c| c.get()).unwrap_or(false) }
fn set_counting(v: bool) { ON.with(|c| c.set(v)); }
static LIVE: AtomicI64 = AtomicI64::new(0);
static TOTAL: AtomicU64 = AtomicU64::new(0);
unsafe impl GlobalAlloc for Counting {
    unsafe fn alloc(&self, l: Layout) -> *mut u8 {
        if counting() { LIVE.fetch_add(l.size() as i64, Relaxed); TOTAL.fetch_add(l.size() as u64, Relaxed); }
        System.alloc(l)
    }
    unsafe fn dealloc(&self, p: *mut u8, l: Layout) {
        if counting() { LIVE.fetch_sub(l.size() as i64, Relaxed); }
        System.dealloc(p, l)
    }
    unsafe fn realloc(&self, p: *mut u8, l: Layout, new: usize) -> *mut u8 {
        if counting() { LIVE.fetch_add(new as i64 - l.size() as i64, Relaxed); TOTAL.fetch_add(new as u64, Relaxed); }
        System.realloc(p, l, new)
    }
}
#[global_allocator]
static A: Counting = Counting;

#[derive(Clone, Debug)]
struct Ev { conn: u32, client: bool, flags: String, seq: u32, pay: Vec<u8> }

fn cycle(tpl: &[u8], off: usize, n: usize) -> Vec<u8> { (0..n).map(|i| tpl[(off + i) % tpl.len()]).collect() }

/// one item -> (is macro, packets)
fn parse_item(t: &str) -> (bool, Vec<Ev>) {
    let p: Vec<&str> = t.split(':').collect();
    let w: Vec<&str> = p[0].split('*').collect();
    let (who, dir) = w[0].split_at(w[0].len() - 1);
    let conn: u32 = who.parse().unwrap();
    let client = dir == "c";
    let flags = if p[1] == "-" { String::new() } else { p[1].to_string() };
    let seq: u32 = p[2].parse().unwrap();
    let pay = unhex_or_dash(p[3]);
    if w.len() == 1 { return (false, vec![Ev { conn, client, flags, seq, pay }]); }
    let cnt: usize = w[1].parse().unwrap(); let size: usize = w[2].parse().unwrap();
    let evs = (0..cnt).map(|i| Ev { conn, client, flags: flags.clone(), seq: seq.wrapping_add((i * size) as u32), pay: cycle(&pay, i * size, size) }).collect();
    (true, evs)
}

fn write_packet(b: &mut Vec<u8>, e: &Ev) {
    let cip = [10u8, 0, 1, e.conn as u8];
    let sip = [10u8, 0, 2, 1];
    let cport = (40000 + e.conn) as u16;
    let (src, dst, sp, dp) = if e.client { (cip, sip, cport, 80u16) } else { (sip, cip, 80u16, cport) };
    let total = 40 + e.pay.len();
    b.clear();
    b.extend_from_slice(&[0x45, 0, (total >> 8) as u8, total as u8, 0, 1, 0x40, 0, 64, 6, 0, 0]);
    b.extend_from_slice(&src); b.extend_from_slice(&dst);
    b.extend_from_slice(&sp.to_be_bytes()); b.extend_from_slice(&dp.to_be_bytes());
    b.extend_from_slice(&e.seq.to_be_bytes()); b.extend_from_slice(&[0, 0, 0, 0]);
    let mut fl = 0u8;
    for c in e.flags.chars() { fl |= match c { 'F' => 1, 'S' => 2, 'R' => 4, 'P' => 8, 'A' => 16, _ => 0 }; }
    b.extend_from_slice(&[0x50, fl, 0xff, 0xff, 0, 0, 0, 0]);
    b.extend_from_slice(&e.pay);
}

// ---------------------------------------------------------------- mode H
#[derive(Default, Clone)]
struct ShadowFlow { conn: u32, cbytes: u64, sbytes: u64, csegs: u64, ssegs: u64, cparsed: bool, sparsed: bool, cstored: Vec<(u32, Vec<u8>)>, sstored: Vec<(u32, Vec<u8>)> }

fn run_h(cap: usize, items: &[&str]) -> String {
    use huginn_net_http::http_process::{process_http_ipv4, FlowKey, HttpProcessors, TcpFlow};
    use pnet::packet::ipv4::Ipv4Packet;
    let parsed: Vec<(bool, Vec<Ev>)> = items.iter().map(|t| parse_item(t)).collect();
    let mut out = String::with_capacity(64 * items.len() + 64);
    let mut bad: Option<String> = None;
    let mut buf: Vec<u8> = Vec::with_capacity(70000);
    let mut shadow: Vec<ShadowFlow> = Vec::with_capacity(256);       // insertion order, oldest first
    let procs = HttpProcessors::new();
    LIVE.store(0, Relaxed);
    set_counting(true);
    let mut flows: Box<ttl_cache::TtlCache<FlowKey, TcpFlow>> = Box::new(ttl_cache::TtlCache::new(cap));
    set_counting(false);
    let mut pkt_index = 0usize;
    for (is_macro, evs) in &parsed {
        let (mut reports, mut max_cost, mut last) = (0u64, 0u64, (String::from("-"), 0u64, 0u64));
        for e in evs {
            write_packet(&mut buf, e);
            let t0 = TOTAL.load(Relaxed);
            set_counting(true);
            let kind = {
                let pkt = Ipv4Packet::new(&buf).unwrap();
                match process_http_ipv4(&pkt, &mut flows, &procs) {
                    Err(_) => 'E',
                    Ok(p) => match (p.http_request.is_some(), p.http_response.is_some()) { (false, false) => '-', (true, false) => 'Q', (false, true) => 'R', _ => 'B' },
                }
            };
            set_counting(false);
            let alloc = TOTAL.load(Relaxed) - t0;
            let live = LIVE.load(Relaxed).max(0) as u64;
            // ---- shadow of the flow table (what the packets sent and the reports received imply) ----
            let plen = e.pay.len() as u64;
            let mut cost = 0u64; let mut stored = false; let mut rebuilt = 0u64;
            if let Some(ix) = shadow.iter().position(|f| f.conn == e.conn) {
                if plen > 0 {
                    cost = plen;
                    {
                        let f = &mut shadow[ix];
                        // an exact retransmission (same sequence number, same bytes) is not stored again (fix C09-dup)
                        let seg = (e.seq, e.pay.clone());
                        if e.client { if !f.cparsed && !f.cstored.contains(&seg) { f.cstored.push(seg); f.cbytes += plen; f.csegs += 1; stored = true; rebuilt = f.cbytes; if kind == 'Q' { f.cparsed = true; } } }
                        else if !f.sparsed && !f.sstored.contains(&seg) { f.sstored.push(seg); f.sbytes += plen; f.ssegs += 1; stored = true; rebuilt = f.sbytes; if kind == 'R' { f.sparsed = true; } }
                    }
                    if stored { cost += 3 * rebuilt; }
                    let f = shadow[ix].clone();
                    // removal uses this packet's key: only a client-direction packet can remove the flow
                    // RST, or FIN unless the request was reported and the response is still pending (fix C09-fin)
                    let pending = f.cparsed && !f.sparsed;
                    if e.client && ((f.cparsed && f.sparsed) || e.flags.contains('R') || (e.flags.contains('F') && !pending)) { shadow.remove(ix); }
                }
            } else if e.client && e.flags.contains('S') {
                // (a server-direction SYN without flow would create a reversed flow; the generator never does that)
                cost = plen;
                shadow.push(ShadowFlow { conn: e.conn, cbytes: plen, csegs: 1, cstored: vec![(e.seq, e.pay.clone())], ..Default::default() });
                if shadow.len() > cap { shadow.remove(0); }
            }
            let sh_bytes: u64 = shadow.iter().map(|f| f.cbytes + f.sbytes).sum();
            let sh_segs: u64 = shadow.iter().map(|f| f.csegs + f.ssegs).sum();
            if bad.is_none() {
                if live < sh_bytes { bad = Some(format!("packet {}: live {} < retained {}", pkt_index, live, sh_bytes)); }
                else if live > 2 * sh_bytes + 96 * sh_segs + 2048 * shadow.len() as u64 + 16384 { bad = Some(format!("packet {}: live {} far above retained {} ({} segments, {} flows)", pkt_index, live, sh_bytes, sh_segs, shadow.len())); }
                else if stored && alloc < plen + 2 * rebuilt { bad = Some(format!("packet {}: allocated {} < payload {} + 2*rebuilt {}", pkt_index, alloc, plen, rebuilt)); }
                else if alloc > 16 * (plen + 3 * rebuilt) + 256 * sh_segs + 65536 { bad = Some(format!("packet {}: allocated {} far above cost {}", pkt_index, alloc, cost)); }
            }
            if kind == 'Q' || kind == 'R' { reports += 1; }
            max_cost = max_cost.max(cost);
            last = (kind.to_string(), sh_bytes, cost);
            pkt_index += 1;
        }
        if !out.is_empty() { out.push(' '); }
        if *is_macro { out.push_str(&format!("{}x:{}:{}", reports, last.1, max_cost)); }
        else { out.push_str(&format!("{}:{}:{}", last.0, last.1, last.2)); }
    }
    drop(flows);
    match bad { Some(m) => format!("{}\t!{}", out, m), None => out }
}

// ---------------------------------------------------------------- mode T
fn run_t(cap: usize, items: &[&str]) -> String {
    use huginn_net_tls::process::process_ipv4_packet;
    use huginn_net_tls::{FlowKey, TlsClientHelloReader};
    use pnet::packet::ipv4::Ipv4Packet;
    let mut flows: ttl_cache::TtlCache<FlowKey, TlsClientHelloReader> = ttl_cache::TtlCache::new(cap);
    let mut keys: Vec<FlowKey> = Vec::new();
    let mut buf: Vec<u8> = Vec::with_capacity(70000);
    let mut out = Vec::new();
    let (mut bad, mut max_chunk, mut pkt_index): (Option<String>, u64, usize) = (None, 0, 0);
    for t in items {
        let (is_macro, evs) = parse_item(t);
        let (mut somes, mut last) = (0u64, (String::from("-"), 0u64));
        for e in &evs {
            write_packet(&mut buf, e);
            let cip = IpAddr::V4(Ipv4Addr::new(10, 0, 1, e.conn as u8)); let sip = IpAddr::V4(Ipv4Addr::new(10, 0, 2, 1));
            let cport = (40000 + e.conn) as u16;
            let key: FlowKey = if e.client { (cip, sip, cport, 80) } else { (sip, cip, 80, cport) };
            if !keys.contains(&key) { keys.push(key); }
            let kind = {
                let pkt = Ipv4Packet::new(&buf).unwrap();
                match process_ipv4_packet(&pkt, &mut flows) { Ok(None) => "-", Ok(Some(_)) => "S", Err(_) => "E" }
            };
            let retained: u64 = keys.iter().map(|k| flows.get(k).map(|r| r.buffer_len() as u64).unwrap_or(0)).sum();
            // impl-level oracle: no reader of the flow table may hold more than one pending record plus this segment
            max_chunk = max_chunk.max(e.pay.len() as u64);
            if bad.is_none() {
                if let Some(big) = keys.iter().filter_map(|k| flows.get(k).map(|r| r.buffer_len() as u64)).find(|&n| n > 65539 + max_chunk) {
                    bad = Some(format!("retained: packet {}: a reader holds {} bytes > 65539 + largest segment {}", pkt_index, big, max_chunk));
                }
            }
            pkt_index += 1;
            if kind == "S" { somes += 1; }
            last = (kind.to_string(), retained);
        }
        out.push(if is_macro { format!("{}x:{}", somes, last.1) } else { format!("{}:{}", last.0, last.1) });
    }
    match bad { Some(m) => format!("{}\t!{}", out.join(" "), m), None => out.join(" ") }
}

// ---------------------------------------------------------------- mode R
fn run_r(items: &[&str]) -> String {
    use huginn_net_tls::TlsClientHelloReader;
    let mut reader = TlsClientHelloReader::new();
    let mut out = Vec::new();
    // impl-level oracle: while no parse error was returned the reader holds at most one pending record plus one chunk
    let (mut bad, mut max_chunk, mut errored, mut idx): (Option<String>, usize, bool, usize) = (None, 0, false, 0);
    let mut feed = |reader: &mut TlsClientHelloReader, c: &[u8]| -> &'static str {
        let k = match reader.add_bytes(c) { Ok(Some(_)) => "S", Ok(None) => "N", Err(_) => { if reader.buffer_len() > 0 { errored = true; } "E" } };
        max_chunk = max_chunk.max(c.len());
        if bad.is_none() && !errored && reader.buffer_len() > 65539 + max_chunk {
            bad = Some(format!("retained: chunk {}: buffer_len {} > 65539 + largest chunk {}", idx, reader.buffer_len(), max_chunk));
        }
        idx += 1;
        k
    };
    for t in items {
        let w: Vec<&str> = t.split('*').collect();
        if w.len() == 1 {
            let k = feed(&mut reader, &unhex_or_dash(w[0]));
            out.push(format!("{}:{}", k, reader.buffer_len()));
        } else {
            let tpl = unhex(w[0]); let cnt: usize = w[1].parse().unwrap(); let size: usize = w[2].parse().unwrap();
            let mut somes = 0;
            for i in 0..cnt { if feed(&mut reader, &cycle(&tpl, i * size, size)) == "S" { somes += 1; } }
            out.push(format!("{}x:{}", somes, reader.buffer_len()));
        }
    }
    match bad { Some(m) => format!("{}\t!{}", out.join(" "), m), None => out.join(" ") }
}

// ---------------------------------------------------------------- mode U
fn run_u(cap: usize, items: &[&str]) -> String {
    use huginn_net_tcp::uptime::{check_ts_tcp, Connection, ConnectionKey, TcpTimestamp};
    let mut tracker: ttl_cache::TtlCache<ConnectionKey, TcpTimestamp> = ttl_cache::TtlCache::new(cap);
    let mut out = Vec::new();
    for t in items {
        let (w, v) = t.split_once(':').unwrap();
        let (who, dir) = w.split_at(w.len() - 1);
        let n: u32 = who.parse().unwrap();
        let conn = Connection { src_ip: IpAddr::V4(Ipv4Addr::new(10, 0, 1, n as u8)), src_port: (40000 + n) as u16, dst_ip: IpAddr::V4(Ipv4Addr::new(10, 0, 2, 1)), dst_port: 80 };
        let _ = check_ts_tcp(&mut tracker, &conn, dir == "c", v.parse().unwrap());
        out.push(tracker.iter().count().to_string());
    }
    out.join(" ")
}

// ---------------------------------------------------------------- modes P, L, K: the public parallel entry points
// HuginnNet{Http,Tls,Tcp}::with_config(..) + init_pool(..) with ONE worker: the worker's table is the whole analyzer,
// so what is reported must follow the capacity rule of the model whatever the queue size is.  One packet is in
// flight at a time (P, K: the worker answers every analysed packet; L: a sentinel ClientHello closes the run).
fn ethernet(ip: &[u8]) -> Vec<u8> {
    let mut f = vec![0x02, 0, 0, 0, 0, 0x02, 0x02, 0, 0, 0, 0, 0x01, 0x08, 0x00];
    f.extend_from_slice(ip);
    f
}

fn run_pool_http(cap: usize, queue: usize, items: &[&str]) -> String {
    use huginn_net_http::{DispatchResult, HttpAnalysisResult, HuginnNetHttp};
    let (tx, rx) = std::sync::mpsc::channel::<HttpAnalysisResult>();
    let mut analyzer = match HuginnNetHttp::with_config(None, cap, 1, queue, 16, 10) { Ok(a) => a, Err(_) => return "ERR".into() };
    if analyzer.init_pool(tx).is_err() { return "ERR".into(); }
    let pool = analyzer.worker_pool().expect("pool").clone();
    let mut buf: Vec<u8> = Vec::with_capacity(70000);
    let mut out = Vec::new();
    for t in items {
        let (is_macro, evs) = parse_item(t);
        let (mut reports, mut last) = (0u64, String::from("-"));
        for e in &evs {
            write_packet(&mut buf, e);
            let kind = if pool.dispatch(ethernet(&buf)) != DispatchResult::Queued { "D".to_string() } else {
                match rx.recv_timeout(std::time::Duration::from_secs(20)) {
                    Err(_) => "T".to_string(),
                    Ok(r) => match (r.http_request.is_some(), r.http_response.is_some()) { (false, false) => "-", (true, false) => "Q", (false, true) => "R", _ => "B" }.to_string(),
                }
            };
            if kind == "Q" || kind == "R" { reports += 1; }
            last = kind;
        }
        out.push(if is_macro { format!("{}x", reports) } else { last });
    }
    pool.shutdown();
    out.join(" ")
}

fn run_pool_tls(cap: usize, queue: usize, items: &[&str]) -> String {
    use huginn_net_tls::{DispatchResult, HuginnNetTls, TlsClientOutput};
    let (tx, rx) = std::sync::mpsc::channel::<TlsClientOutput>();
    let mut analyzer = HuginnNetTls::with_config_and_max_connections(1, queue, 16, 10, cap);
    if analyzer.init_pool(tx).is_err() { return "ERR".into(); }
    let pool = match analyzer.worker_pool() { Some(p) => p, None => return "ERR".into() };
    let mut buf: Vec<u8> = Vec::with_capacity(70000);
    let send = |buf: &Vec<u8>| -> bool {
        // wait for room instead of counting on a large queue: the queue size must not matter
        for _ in 0..200000 { if pool.dispatch(ethernet(buf)) == DispatchResult::Queued { return true; } std::thread::yield_now(); }
        false
    };
    for t in items {
        let (_m, evs) = parse_item(t);
        for e in &evs { write_packet(&mut buf, e); if !send(&buf) { pool.shutdown(); return "D".into(); } }
    }
    // sentinel: a complete ClientHello on a connection of its own is always reported; when it comes back everything before it was analysed
    let sentinel = Ev { conn: 199, client: true, flags: "PA".into(), seq: 1, pay: client_hello() };
    write_packet(&mut buf, &sentinel);
    if !send(&buf) { pool.shutdown(); return "D".into(); }
    let mut out = Vec::new();
    loop {
        match rx.recv_timeout(std::time::Duration::from_secs(20)) {
            Err(_) => { out.push("T".to_string()); break; }
            Ok(r) => {
                let (port, client) = if r.destination.port == 80 { (r.source.port, true) } else { (r.destination.port, false) };
                let conn = port as u32 - 40000;
                if conn == 199 { break; }
                out.push(format!("S{}{}", conn, if client { 'c' } else { 's' }));
            }
        }
    }
    pool.shutdown();
    if out.is_empty() { "-".into() } else { out.join(" ") }
}

fn run_pool_tcp(cap: usize, queue: usize, items: &[&str]) -> String {
    use huginn_net_tcp::uptime::verif_hooks::set_frozen_clock;
    use huginn_net_tcp::{DispatchResult, HuginnNetTcp, TcpAnalysisResult};
    let (tx, rx) = std::sync::mpsc::channel::<TcpAnalysisResult>();
    let mut analyzer = match HuginnNetTcp::with_config(None, cap, 1, queue, 16, 10) { Ok(a) => a, Err(_) => return "ERR".into() };
    if analyzer.init_pool(tx).is_err() { return "ERR".into(); }
    let pool = match analyzer.worker_pool() { Some(p) => p, None => return "ERR".into() };
    let mut out = Vec::new();
    let mut clock: u64 = 1_700_000_000_000;
    for t in items {
        let (w, _v) = t.split_once(':').unwrap();
        let (who, dir) = w.split_at(w.len() - 1);
        let n: u32 = who.parse().unwrap();
        let client = dir == "c";
        // the clock advances 1000 ms per packet and TSval follows it at 100 Hz: every comparison with a stored
        // reference (k packets earlier) sees k*1000 ms and k*100 ticks, a valid 100 Hz clock
        clock += 1000;
        set_frozen_clock(Some(clock));
        let tsval = (clock / 10) as u32;
        let cip = [10u8, 0, 1, n as u8]; let sip = [10u8, 0, 2, 1]; let cport = (40000 + n) as u16;
        let (src, dst, sp, dp, fl) = if client { (cip, sip, cport, 80u16, 0x02u8) } else { (sip, cip, 80u16, cport, 0x12u8) };
        let mut b: Vec<u8> = Vec::with_capacity(52);
        b.extend_from_slice(&[0x45, 0, 0, 52, 0, 1, 0x40, 0, 64, 6, 0, 0]);
        b.extend_from_slice(&src); b.extend_from_slice(&dst);
        b.extend_from_slice(&sp.to_be_bytes()); b.extend_from_slice(&dp.to_be_bytes());
        b.extend_from_slice(&1000u32.to_be_bytes()); b.extend_from_slice(&[0, 0, 0, 0]);
        b.extend_from_slice(&[0x80, fl, 0xff, 0xff, 0, 0, 0, 0]);
        b.extend_from_slice(&[1, 1, 8, 10]); b.extend_from_slice(&tsval.to_be_bytes()); b.extend_from_slice(&[0, 0, 0, 0]);
        let tok = if pool.dispatch(ethernet(&b)) != DispatchResult::Queued { "D" } else {
            match rx.recv_timeout(std::time::Duration::from_secs(20)) {
                Err(_) => "T",
                Ok(r) => if r.client_uptime.is_some() || r.server_uptime.is_some() { "u" } else { "-" },
            }
        };
        out.push(tok.to_string());
    }
    pool.shutdown();
    set_frozen_clock(None);
    out.join(" ")
}

fn run(line: &str) -> String {
    let toks: Vec<&str> = line.split_whitespace().collect();
    let cap: usize = toks[1].parse().unwrap();
    match toks[0] {
        "H" => run_h(cap, &toks[2..]),
        "T" => run_t(cap, &toks[2..]),
        "R" => run_r(&toks[2..]),
        "U" => run_u(cap, &toks[2..]),
        "P" => run_pool_http(cap, toks[2].parse().unwrap(), &toks[3..]),
        "L" => run_pool_tls(cap, toks[2].parse().unwrap(), &toks[3..]),
        "K" => run_pool_tcp(cap, toks[2].parse().unwrap(), &toks[3..]),
        _ => "BADMODE".into(),
    }
}

// ------------------------------------------------------------------------------------------------
// generators

fn client_hello() -> Vec<u8> {
    let mut body = vec![0x03, 0x03]; body.extend((0..32).map(|i| i as u8)); body.push(0);
    body.extend([0x00, 0x02, 0x13, 0x01, 0x01, 0x00]);
    let mut hs = vec![0x01, 0, 0, body.len() as u8]; hs.extend(body);
    let mut rec = vec![0x16, 0x03, 0x01, 0, hs.len() as u8]; rec.extend(hs);
    rec
}
fn server_hello_done() -> Vec<u8> { vec![0x16, 0x03, 0x03, 0x00, 0x04, 0x0e, 0x00, 0x00, 0x00] }
fn garbage_handshake(r: &mut Rng) -> Vec<u8> { let n = r.range(1, 40) as usize; let mut v = vec![0x16, 0x03, 0x03, 0, n as u8, 0xff]; v.extend((1..n).map(|_| r.next() as u8)); v }

/// complete handshake records without a ClientHello that tls-parser accepts (the shapes Extract/EC11.v knows):
/// ServerHello, Certificate, ServerKeyExchange, ServerHelloDone, ServerHello+ServerHelloDone in one record, all four in one record
fn other_records() -> Vec<Vec<u8>> {
    ["160303002a020000260303202122232425262728292a2b2c2d2e2f303132333435363738393a3b3c3d3e3f00130100",
     "160303000b0b000007000004000001aa", "160303000c0c00000803001d0401020304", "16030300040e000000",
     "160303002e020000260303202122232425262728292a2b2c2d2e2f303132333435363738393a3b3c3d3e3f001301000e000000",
     "1603030045020000260303202122232425262728292a2b2c2d2e2f303132333435363738393a3b3c3d3e3f001301000b000007000004000001aa0c00000803001d04010203040e000000"]
        .iter().map(|h| unhex(h)).collect()
}
/// records of other content types (alert, change_cipher_spec, application data); no byte 0x16 inside
fn non_handshake_records(r: &mut Rng) -> Vec<Vec<u8>> {
    let mut app = vec![0x17, 0x03, 0x03, 0x00, 0x18]; app.extend(no16(r.bytes(24)));
    vec![vec![0x15, 0x03, 0x03, 0x00, 0x02, 0x01, 0x00], vec![0x14, 0x03, 0x03, 0x00, 0x01, 0x01], app]
}
/// one segment = 2..6 complete records; the first is always a handshake record.  kind 0: non-ClientHello handshake records
/// only; 1: ClientHello then more records; 2: handshake records then alert/CCS/application data; 3: records + a partial record
fn multi_record_segment(r: &mut Rng, kind: u64) -> Vec<u8> {
    let others = other_records(); let nonhs = non_handshake_records(r); let ch = client_hello();
    let k = r.range(2, 6) as usize;
    let mut seg: Vec<u8> = Vec::new();
    for i in 0..k {
        let rec: Vec<u8> = match kind {
            1 if i == 0 => ch.clone(),
            2 if i >= 1 && r.chance(2, 3) => r.pick(&nonhs).clone(),
            _ => r.pick(&others).clone(),
        };
        seg.extend(rec);
    }
    if kind == 3 { let p = r.pick(&others).clone(); let cut = r.range(1, p.len() as u64 - 1) as usize; seg.extend(&p[..cut]); }
    seg
}

/// application-data filler must never make a chunk start with the handshake type byte
fn no16(mut v: Vec<u8>) -> Vec<u8> { for b in v.iter_mut() { if *b == 0x16 { *b = 0x15; } } v }

/// (count, size) with count*size = k*len, k in {1,2}, size a divisor of len
fn whole_copies(r: &mut Rng, len: usize) -> (usize, usize) {
    let divs: Vec<usize> = (1..=len).filter(|d| len % d == 0).collect();
    let size = *r.pick(&divs);
    ((len / size) * r.range(1, 2) as usize, size)
}

/// a template of at least `min` bytes built by repeating `unit` (long templates keep long traces out of the in-Coq sample)
fn template(unit: &[u8], min: usize) -> Vec<u8> { let mut t = Vec::new(); while t.len() < min.max(1) { t.extend_from_slice(unit); } t }

fn gen(r: &mut Rng, tier: &Tier, out: &mut Vec<String>) {
    let long_tpl = 800usize;     // >= 1600 hex characters: such cases are never re-evaluated inside Coq
    // ---------------- H: small traces (sampled inside Coq too) ----------------
    for _ in 0..tier.scale(300, 3000) {
        let cap = *r.pick(&[0usize, 1, 2, 1000]);
        let mut s = format!("H {}", cap);
        let isn = r.below(1 << 31) as u32; let sisn = r.below(1 << 31) as u32;
        s.push_str(&format!(" 1c:S:{}:- 1s:SA:{}:-", isn, sisn));
        let req: &[u8] = if r.chance(2, 3) { b"GET /index.html HTTP/1.1\r\nHost: example.com\r\nAccept: */*\r\n\r\nBODYBODY" } else { b"GET /never HTTP/1.1\r\nX-Pad: aaaaaaaaaaaaaaaaaaaaaaaaaaaaaaaaaaaaaaaaaaaaaaaaaaaaaaaaaaaaaaaaaaaaaaaaaaaaaaaaaa" };
        let resp: &[u8] = if r.chance(2, 3) { b"HTTP/1.1 200 OK\r\nServer: nginx\r\nContent-Length: 4\r\n\r\nbody" } else { b"\x17\x03\x03\x00\x20binarybinarybinarybinarybinarybinary" };
        let sz = r.range(1, 40) as usize; let n = r.range(1, 12) as usize;
        if r.chance(1, 2) { s.push_str(&format!(" 1c*{}*{}:PA:{}:{}", n, sz, isn.wrapping_add(1), hex(req))); }
        else { let mut off = 0; while off < req.len() { let k = (r.range(1, 30) as usize).min(req.len() - off); s.push_str(&format!(" 1c:PA:{}:{}", isn.wrapping_add(1 + off as u32), hex(&req[off..off + k]))); off += k; } }
        let sz2 = r.range(1, 40) as usize; let n2 = r.range(1, 8) as usize;
        s.push_str(&format!(" 1s*{}*{}:PA:{}:{}", n2, sz2, sisn.wrapping_add(1), hex(resp)));
        if r.chance(1, 2) { s.push_str(&format!(" 1c*{}*{}:{}:{}:{}", r.range(1, 5), r.range(1, 20), if r.chance(1, 4) { "FPA" } else { "PA" }, isn.wrapping_add(5000), hex(b"more client data after the request"))); }
        if r.chance(1, 3) { s.push_str(&format!(" 2c:S:77:- 2c*{}*{}:PA:78:{}", r.range(1, 6), r.range(1, 30), hex(req))); }
        out.push(s);
    }
    // ---------------- H: long connections that never yield a fingerprint ----------------
    let sizes: Vec<(usize, usize)> = if tier.thorough { vec![(100, 1400), (1000, 100), (1000, 300), (3000, 32), (5000, 16)] } else { vec![(100, 1400), (500, 200), (1000, 16), (3000, 4), (5000, 2)] };
    for &(count, size) in &sizes {
        let kinds: Vec<(&str, Vec<u8>, Vec<u8>)> = vec![
            ("never-completing head", b"GET /a HTTP/1.1\r\nX-Pad: ".to_vec(), b"a".to_vec()),
            ("tls application data", vec![0x17, 0x03, 0x03, 0x40, 0x00], (0..64).map(|_| r.next() as u8).collect()),
            ("random bytes", (0..8).map(|_| 0x80 | r.next() as u8).collect(), (0..128).map(|_| r.next() as u8).collect()),
            ("huge declared length", b"POST /u HTTP/1.1\r\nContent-Length: 99999999999\r\nX: ".to_vec(), b"0123456789abcdef".to_vec()),
        ];
        for (ki, (_name, head, unit)) in kinds.into_iter().enumerate() {
            if count >= 5000 && ki != 0 { continue; }   // the model re-walks all stored segments per packet: one kind only at this size
            if count >= 3000 && tier.thorough && ki >= 2 { continue; }
            // head, then the unit repeated; the macro cycles through it, so the head never completes
            let mut tpl = head.clone(); tpl.extend(template(&unit, long_tpl));
            let isn = r.below(1 << 31) as u32;
            let dirs: &[&str] = if r.chance(1, 2) { &["c"] } else { &["s"] };
            let mut s = format!("H {} 1c:S:{}:- 1s:SA:5000:-", *r.pick(&[1usize, 1000]), isn);
            for d in dirs { s.push_str(&format!(" 1{}*{}*{}:PA:{}:{}", d, count, size, if *d == "c" { isn.wrapping_add(1) } else { 5001 }, hex(&tpl))); }
            out.push(s);
        }
    }
    // a connection that does yield both fingerprints, then carries a long body: cost must stay flat (C11_http_partial / mutation "keep storing")
    for &(count, size) in &[(2000usize, 100usize), (500, 1400)] {
        let isn = 1000u32;
        let req = b"GET / HTTP/1.1\r\nHost: a\r\n\r\n"; let resp = b"HTTP/1.1 200 OK\r\nServer: x\r\n\r\n";
        let tpl = template(b"body-bytes-", long_tpl);
        out.push(format!("H 1000 1c:S:{}:- 1s:SA:5000:- 1c:PA:{}:{} 1s:PA:5001:{} 1s*{}*{}:PA:{}:{} 1c*{}*{}:PA:{}:{}",
            isn, isn + 1, hex(req), hex(resp), count, size, 5001 + resp.len(), hex(&tpl), count / 10, size, isn as usize + 1 + req.len(), hex(&tpl)));
        // the request is reported, then its long body follows before any response: must not be stored (mutation "keep storing")
        out.push(format!("H 1000 1c:S:{}:- 1s:SA:5000:- 1c:PA:{}:{} 1c*{}*{}:PA:{}:{}", isn, isn + 1, hex(req), count, size, isn as usize + 1 + req.len(), hex(&tpl)));
        // only the request is ever reported: the server direction keeps growing
        out.push(format!("H 1000 1c:S:{}:- 1s:SA:5000:- 1c:PA:{}:{} 1s*{}*{}:PA:5001:{}", isn, isn + 1, hex(req), count / 4, size, hex(&tpl)));
    }
    // ---------------- H: retransmission rounds of 2-3 distinct pending segments (A B A B ..., A B C A B C ...) ----------------
    // the head never completes; after the first round no new byte arrives, so nothing more may be retained and the
    // per-packet work must not grow (a retransmission check that only looks at the last stored segment fails here)
    for i in 0..tier.scale(12, 60) {
        let nseg = 2 + (i % 2) as usize;                       // 2 or 3 distinct pending segments
        let size = *r.pick(&[300usize, 500, 900]);
        let rounds = r.range(60, 90) as usize;
        let client = i % 4 < 2;
        let isn = r.below(1 << 31) as u32;
        let mut s = format!("H {} 1c:S:{}:- 1s:SA:5000:-", *r.pick(&[1usize, 1000]), isn);
        let base = if client { isn.wrapping_add(1) } else { 5001 };
        let mut segs: Vec<Vec<u8>> = Vec::new();
        for k in 0..nseg {
            let mut d: Vec<u8> = if k == 0 { b"POST /upload HTTP/1.1\r\nX-Pad: ".to_vec() } else { Vec::new() };
            while d.len() < size { d.push(b'a' + ((k + d.len()) % 26) as u8); }
            segs.push(d);
        }
        for _ in 0..rounds {
            for (k, d) in segs.iter().enumerate() {
                s.push_str(&format!(" 1{}:PA:{}:{}", if client { 'c' } else { 's' }, base.wrapping_add((k * size) as u32), hex(d)));
            }
        }
        out.push(s);
    }
    // ---------------- T: TLS analyzer ----------------
    let ch = client_hello(); let shd = server_hello_done();
    for _ in 0..tier.scale(300, 3000) {
        let cap = *r.pick(&[0usize, 1, 2, 1000]);
        let mut s = format!("T {}", cap);
        let mut seq = 1001u32;
        for _ in 0..r.range(1, 6) {
            let conn = r.range(1, 3); let d = if r.chance(2, 3) { "c" } else { "s" };
            let rec: Vec<u8> = match r.below(8) {
                0 | 1 => ch.clone(),
                2 => shd.clone(),
                3 => garbage_handshake(r),
                4 => { let mut v = vec![0x17, 0x03, 0x03, 0x00, 0x10]; v.extend(r.bytes(16)); v }
                5 => vec![0x16, 0x03, 0x01, 0xff, 0xff, 0x01, 0x00, 0xff, 0xfb],            // declares 65535 bytes
                6 => vec![0x16, 0x03, 0x03, 0x00, 0x00],
                _ => { let n = r.range(1, 30) as usize; let mut v = r.bytes(n); if v[0] == 0x16 { v[0] = 0x15; } v }
            };
            // a macro always delivers whole copies of the record (count*size is a multiple of its length), so that every
            // complete handshake record the reader ever parses is one of the canonical shapes tls_parse_gen knows
            if r.chance(1, 2) { s.push_str(&format!(" {}{}:PA:{}:{}", conn, d, seq, hex(&rec))); }
            else { let (cnt, size) = whole_copies(r, rec.len()); s.push_str(&format!(" {}{}*{}*{}:PA:{}:{}", conn, d, cnt, size, seq, hex(&rec))); }
            seq = seq.wrapping_add(100);
        }
        out.push(s);
    }
    // long TLS connections: ClientHello then application data; non-ClientHello handshake then data; huge declared length fed to the limit
    let tsizes: Vec<(usize, usize)> = if tier.thorough { vec![(1000, 1400), (10000, 1400), (100000, 100)] } else { vec![(1000, 1400), (10000, 100)] };
    for &(count, size) in &tsizes {
        let app = { let mut v = vec![0x17, 0x03, 0x03, 0x05, 0x73]; v.extend(template(&no16(r.bytes(61)), long_tpl)); v };
        out.push(format!("T 1000 1c:PA:1:{} 1c*{}*{}:PA:100:{}", hex(&ch), count, size, hex(&app)));
        out.push(format!("T 1000 1c:PA:1:{} 1c*{}*{}:PA:100:{}", hex(&shd), count, size, hex(&app)));
        let huge = { let mut v = vec![0x16, 0x03, 0x03, 0xff, 0xff, 0x01, 0x00, 0xff, 0xfb]; v.extend(template(&[0x16, 0x03, 0x03, 0xff], long_tpl)); v };
        // fed up to and beyond the 64 KiB limit several times (the model re-walks the buffer per packet: keep these at 10^3)
        let hc = count.min(1000);
        out.push(format!("T 1000 1c*{}*{}:PA:1:{}", hc, size, hex(&huge)));
        out.push(format!("T 1 1c*{}*{}:PA:1:{} 2c*{}*{}:PA:1:{}", hc / 2, size, hex(&huge), hc / 2, size, hex(&huge)));
    }
    // ---------------- R: the reader on its own ----------------
    for _ in 0..tier.scale(200, 2000) {
        let mut s = String::from("R 1");
        for _ in 0..r.range(1, 6) {
            let rec: Vec<u8> = match r.below(7) {
                0 | 1 => ch.clone(), 2 => shd.clone(), 3 => garbage_handshake(r),
                4 => { let mut v = vec![0x17, 0x03, 0x03, 0x00, 0x10]; v.extend(r.bytes(16)); v }
                5 => vec![0x16, 0x03, 0x03, 0x00, 0x00],
                _ => { let n = r.range(1, 12) as usize; let mut v = r.bytes(n); if v[0] == 0x16 { v[0] = 0x15; } v }
            };
            if r.chance(1, 2) { s.push_str(&format!(" {}", hex(&rec))); }
            else { let (cnt, size) = whole_copies(r, rec.len()); s.push_str(&format!(" {}*{}*{}", hex(&rec), cnt, size)); }
        }
        out.push(s);
    }
    {
        let app = { let mut v = vec![0x17, 0x03, 0x03, 0x05, 0x73]; v.extend(template(&no16(r.bytes(61)), long_tpl)); v };
        let n = tier.scale(10000, 100000);
        out.push(format!("R 1 {}*{}*{}", hex(&app), n, tier.scale(1400, 100)));   // the model materialises the chunks: keep count*size <= ~10^7
        let huge = { let mut v = vec![0x16, 0x03, 0x03, 0xff, 0xfb]; v.extend(template(&[0xff, 0x02], long_tpl)); v };
        out.push(format!("R 1 {}*{}*1400", hex(&huge), tier.scale(200, 400)));   // kept after the parse error: the model copies the buffer per chunk
        let err = { let mut v = vec![0x16, 0x03, 0x03, 0x00, 0x00]; v.extend(template(&[0x00], long_tpl)); v };
        out.push(format!("R 1 {}*{}*5", hex(&err), tier.scale(2000, 5000)));
    }
    // ---------------- R / T: segments that carry several complete records (any retained tail must show as growth) ----------------
    // short runs, every kind, reader alone and analyzer (either direction); segments are delivered whole (a cut inside the
    // ClientHello's random field could start a chunk with byte 0x16 and splice a record the toy parser does not know)
    for i in 0..tier.scale(240, 2400) {
        let kind = (i % 4) as u64;
        let nseg = r.range(1, 6) as usize;
        let mut rs = String::from("R 1"); let mut ts = format!("T {}", *r.pick(&[1usize, 2, 1000]));
        let d = if r.chance(1, 2) { "c" } else { "s" };
        let mut seq = 1u32;
        for _ in 0..nseg {
            let seg = multi_record_segment(r, kind);
            let reps = r.range(1, 4) as usize;
            if r.chance(1, 2) { rs.push_str(&format!(" {}*{}*{}", hex(&seg), reps, seg.len())); ts.push_str(&format!(" 1{}*{}*{}:PA:{}:{}", d, reps, seg.len(), seq, hex(&seg))); }
            else { rs.push_str(&format!(" {}", hex(&seg))); ts.push_str(&format!(" 1{}:PA:{}:{}", d, seq, hex(&seg))); }
            seq = seq.wrapping_add(10000);
        }
        out.push(rs); out.push(ts);
    }
    // long runs: 10^3..10^4 (thorough 3*10^4) identical multi-record segments on one connection
    let runs: Vec<usize> = if tier.thorough { vec![1000, 3000, 10000, 30000] } else { vec![1000, 3000, 10000] };   // the model materialises a macro's chunks: 3*10^4 x ~300 B is ~200 MB
    for &count in &runs {
        for kind in 0..4u64 {
            let seg = multi_record_segment(r, kind);
            // the template repeats the segment until it is long (keeps the case out of the in-Coq sample); chunk size = one segment
            let mut tpl = Vec::new(); while tpl.len() < long_tpl { tpl.extend_from_slice(&seg); }
            out.push(format!("R 1 {}*{}*{}", hex(&tpl), count, seg.len()));
            let d = if kind % 2 == 0 { "s" } else { "c" };
            out.push(format!("T {} 1{}*{}*{}:PA:1:{}", *r.pick(&[1usize, 1000]), d, count, seg.len(), hex(&tpl)));
        }
        // ServerHello + ServerHelloDone per segment, exactly the shape of a TLS 1.2 server flight
        let o = other_records(); let mut seg = o[0].clone(); seg.extend(&o[1]); seg.extend(&o[3]);
        let mut tpl = Vec::new(); while tpl.len() < long_tpl { tpl.extend_from_slice(&seg); }
        out.push(format!("R 1 {}*{}*{}", hex(&tpl), count, seg.len()));
        out.push(format!("T 1000 1s*{}*{}:PA:1:{}", count, seg.len(), hex(&tpl)));
    }
    // ---------------- U: uptime tracker ----------------
    for _ in 0..tier.scale(200, 2000) {
        let cap = *r.pick(&[0usize, 1, 3, 8, 1000]);
        let mut s = format!("U {}", cap);
        for _ in 0..r.range(1, 60) { s.push_str(&format!(" {}{}:{}", r.range(1, 20), if r.chance(1, 2) { "c" } else { "s" }, 12345)); }
        out.push(s);
    }
    // ---------------- P, L, K: capacity through the public with_config + init_pool path (one worker) ----------------
    // queue size != capacity in both directions: tiny capacity / large queue, and large capacity / tiny queue
    let req1 = b"GET /index.html HTTP/1.1\r\nHost: example.com\r\nAccept: */*\r\n\r\n";
    let resp1 = b"HTTP/1.1 200 OK\r\nServer: nginx\r\nContent-Length: 2\r\n\r\nok";
    for i in 0..tier.scale(36, 240) {
        let (cap, queue): (usize, usize) = match i % 6 { 0 => (1, 64), 1 => (2, 64), 2 => (3, 256), 3 => (1000, 1), 4 => (64, 2), _ => (*r.pick(&[1usize, 2, 5, 40]), *r.pick(&[3usize, 7, 100])) };
        let nconn = r.range(3, 40) as u32;
        // HTTP: every connection opens with a SYN, then each sends a complete request (and gets a response)
        let mut s = format!("P {} {}", cap, queue);
        for c in 1..=nconn { s.push_str(&format!(" {}c:S:{}:-", c, 1000 + c)); }
        let mut order: Vec<u32> = (1..=nconn).collect(); if r.chance(1, 2) { r.shuffle(&mut order); }
        for &c in &order {
            s.push_str(&format!(" {}c:PA:{}:{}", c, 1001 + c, hex(req1)));
            if r.chance(1, 2) { s.push_str(&format!(" {}s:SA:7:- {}s:PA:8:{}", c, c, hex(resp1))); }
        }
        out.push(s);
        // TLS: every connection sends the first half of a ClientHello, then each sends the second half
        let half = ch.len() / 2;
        let mut s = format!("L {} {}", cap, queue);
        for c in 1..=nconn { s.push_str(&format!(" {}c:PA:1:{}", c, hex(&ch[..half]))); }
        for &c in &order { s.push_str(&format!(" {}c:PA:{}:{}", c, 1 + half, hex(&ch[half..]))); }
        out.push(s);
        // TCP: every connection sends a timestamped SYN, then each sends another one
        let mut s = format!("K {} {}", cap, queue);
        for c in 1..=nconn { s.push_str(&format!(" {}c:0", c)); }
        for &c in &order { s.push_str(&format!(" {}c:0", c)); if r.chance(1, 3) { s.push_str(&format!(" {}s:0 {}s:0", c, c)); } }
        out.push(s);
    }
    // spread the long traces over the shards of the runner
    r.shuffle(out);
}

fn main() { main_cli(gen, run) }
