//! C17 harness: Akamai HTTP/2 fingerprint, one-shot and incremental.  Line grammar: coq/Extract/EC17.v.
use hn_h2gen::*;
use hnv_common::*;
use huginn_net_http::akamai_extractor::extract_akamai_fingerprint_from_bytes;
use huginn_net_http::http2_fingerprint_extractor::Http2FingerprintExtractor;
use huginn_net_http::AkamaiFingerprint;
use sha2::{Digest, Sha256};

fn hash_ok(fp: &AkamaiFingerprint) -> bool {
    let d = Sha256::digest(fp.fingerprint.as_bytes());
    let h: String = d.iter().map(|b| format!("{:02x}", b)).collect();
    fp.hash == h[..32]
}

fn one_shot(data: &[u8], notes: &mut Vec<String>) -> String {
    match extract_akamai_fingerprint_from_bytes(data) {
        None => "NONE".into(),
        Some(fp) => {
            if !hash_ok(&fp) { notes.push(format!("!hash {} is not the truncated SHA-256 of {}", fp.hash, esc(fp.fingerprint.as_bytes()))); }
            esc(fp.fingerprint.as_bytes())
        }
    }
}

fn incremental(chunks: &[Vec<u8>], notes: &mut Vec<String>) -> String {
    let mut ex = Http2FingerprintExtractor::new();
    let mut toks = Vec::new();
    let mut reported = 0;
    let mut prefix: Vec<u8> = Vec::new();
    for c in chunks {
        prefix.extend_from_slice(c);
        match ex.add_bytes(c) {
            Ok(None) => toks.push("NONE".to_string()),
            Err(_) => toks.push("ERR".to_string()),
            Ok(Some(fp)) => {
                reported += 1;
                if !hash_ok(&fp) { notes.push("!hash of incremental fingerprint is not the truncated SHA-256".into()); }
                // the clause of the property, checked directly on the implementation
                let os = extract_akamai_fingerprint_from_bytes(&prefix).map(|f| f.fingerprint);
                if os.as_deref() != Some(fp.fingerprint.as_str()) {
                    notes.push(format!("!incremental {} differs from one-shot of the same prefix {:?}", esc(fp.fingerprint.as_bytes()), os));
                }
                toks.push(esc(fp.fingerprint.as_bytes()));
            }
        }
    }
    if reported > 1 { notes.push("!more than one fingerprint reported".into()); }
    if reported == 1 && !ex.fingerprint_extracted() { notes.push("!fingerprint_extracted() false after a report".into()); }
    toks.join(" ")
}

fn run(line: &str) -> String {
    let t: Vec<&str> = line.split_whitespace().collect();
    let mut notes = Vec::new();
    let res = match t[0] {
        "O" => one_shot(&unhex_or_dash(t[1]), &mut notes),
        "F" => one_shot(&unhex_or_dash(t[3]), &mut notes),
        "I" => incremental(&t[1..].iter().map(|h| unhex_or_dash(h)).collect::<Vec<_>>(), &mut notes),
        "J" => incremental(&t[3..].iter().map(|h| unhex_or_dash(h)).collect::<Vec<_>>(), &mut notes),
        _ => "BADCASE".into(),
    };
    if notes.is_empty() { res } else { format!("{}\t{}", res, notes.join("\t")) }
}

// ------------------------------------------------------------------ generators
const PSEUDO: [(&str, &str); 4] = [(":method", "GET"), (":path", "/"), (":authority", "example.com"), (":scheme", "https")];

fn bv(s: &str) -> Vec<u8> { s.as_bytes().to_vec() }

/// a request header list with the pseudo-headers in a random order (sometimes unusual ones)
fn header_list(r: &mut Rng) -> Vec<(Vec<u8>, Vec<u8>)> {
    let mut ps: Vec<(Vec<u8>, Vec<u8>)> = PSEUDO.iter().map(|(n, v)| (bv(n), bv(v))).collect();
    r.shuffle(&mut ps);
    let keep = if r.chance(3, 4) { 4 } else { r.below(5) as usize };
    ps.truncate(keep);
    if r.chance(1, 12) { ps.push((bv(":status"), bv("200"))); }
    if r.chance(1, 12) { ps.push((bv(":protocol"), bv("websocket"))); }
    if r.chance(1, 12) { ps.push((bv(":Me thod%"), bv("x"))); }
    if r.chance(1, 10) { let i = r.below(ps.len() as u64 + 1) as usize; ps.insert(i.min(ps.len()), ps.get(0).cloned().unwrap_or((bv(":path"), bv("/a")))); }
    if r.chance(1, 10) && !ps.is_empty() { let i = r.below(ps.len() as u64) as usize; ps[i].1 = vec![0x2f, 0xff, 0xfe]; }      // non-UTF-8 value
    if r.chance(1, 25) { ps.push((vec![b':', 0xc3, 0x28], bv("v"))); }                                                          // non-UTF-8 name
    let mut hs = ps;
    let regular = [("user-agent", "probe/1.0"), ("accept", "*/*"), ("accept-language", "en-US,en;q=0.9"), ("cookie", "a=b"), ("x-custom", "1")];
    for (n, v) in regular { if r.chance(1, 2) { hs.push((bv(n), bv(v))); } }
    if r.chance(1, 10) { let i = r.below(hs.len() as u64 + 1) as usize; hs.insert(i, (bv("early"), bv("regular-before-pseudo"))); }
    hs
}

/// HEADERS (+CONTINUATION) frames for a request on `stream`
fn headers_frames(r: &mut Rng, stream: u32, plain: bool) -> Vec<Frame> {
    let hs = header_list(r);
    let mut t = Table::new();
    let items = choose_items(r, &hs, &EncOpts::mixed(), &mut t);
    let block = encode_items(&items);
    let fr = if plain { Framing::plain() } else { random_framing(r, block.len()) };
    frames_of_block(&block, stream, &fr)
}

/// frame sequence at the start of a client connection
fn frame_sequence(r: &mut Rng) -> Vec<Frame> {
    let mut fs: Vec<Frame> = Vec::new();
    let classic = r.chance(1, 2);
    if classic {
        let mut s = random_settings(r);
        if s.is_empty() && r.chance(3, 4) { s.push((3, 100)); }
        fs.push(settings_frame(&s));
        if r.chance(2, 3) { fs.push(window_update(0, *r.pick(&[1u32, 15663105, 12517377, 0x7fff_ffff, 65535]), r.chance(1, 4))); }
        for _ in 0..r.below(4) { fs.push(priority_frame(*r.pick(&[3u32, 5, 7, 9, 11, 13]), r.chance(1, 3), *r.pick(&[0u32, 3, 7]), *r.pick(&[0u8, 15, 200, 255]))); }
        if r.chance(3, 4) { let plain = r.chance(1, 2); let st = *r.pick(&[1u32, 3, 15]); fs.extend(headers_frames(r, st, plain)); }
        for _ in 0..r.below(3) { fs.push(random_control(r)); }
        if r.chance(1, 6) { fs.extend(headers_frames(r, 5, true)); }
    } else {
        let n = r.range(1, 7);
        let hpos = r.below(n + 1);
        for i in 0..n {
            if i == hpos && r.chance(2, 3) { let plain = r.chance(1, 3); let st = if r.chance(1, 12) { 0 } else { *r.pick(&[1u32, 3, 0x7fff_ffff]) }; fs.extend(headers_frames(r, st, plain)); }
            fs.push(random_control(r));
        }
    }
    for f in fs.iter_mut() { if r.chance(1, 10) { f.rsv = true; } }
    // malformed sizes for the frames the fingerprint reads (outside wf_frames: SPEC "-")
    if r.chance(1, 12) {
        let i = r.below(fs.len() as u64) as usize;
        let f = &mut fs[i];
        if f.ty == T_WINDOW_UPDATE || f.ty == T_PRIORITY || f.ty == T_SETTINGS {
            match r.below(3) { 0 => { f.payload.pop(); } 1 => f.payload.push(r.next() as u8), _ => f.payload.truncate(2) }
        }
    }
    if r.chance(1, 15) { let i = r.below(fs.len() as u64) as usize; if fs[i].ty == T_WINDOW_UPDATE { fs[i].payload = vec![if r.chance(1, 2) { 0x80 } else { 0 }, 0, 0, 0]; } }
    fs
}

fn cut(data: &[u8], cuts: &[usize]) -> Vec<String> {
    let mut out = Vec::new();
    let mut last = 0;
    for &c in cuts { out.push(hex_or_dash(&data[last..c])); last = c; }
    out.push(hex_or_dash(&data[last..]));
    out
}

fn push_f(out: &mut Vec<String>, pre: bool, fs: &[Frame], data: &[u8]) {
    out.push(format!("F {} {} {}", if pre { "p" } else { "n" }, frames_tok(fs), hex_or_dash(data)));
}
fn push_j(out: &mut Vec<String>, pre: bool, fs: &[Frame], data: &[u8], cuts: &[usize]) {
    out.push(format!("J {} {} {}", if pre { "p" } else { "n" }, frames_tok(fs), cut(data, cuts).join(" ")));
}

fn golden(out: &mut Vec<String>) {
    for file in ["akamai_test_cases.json", "akamai_paper_cases.json", "akamai_paper_simple_cases.json"] {
        let path = format!("/repo/huginn-net-http/tests/snapshots/{}", file);
        let txt = std::fs::read_to_string(&path).expect("golden JSON cases of the repository");
        let v: serde_json::Value = serde_json::from_str(&txt).expect("golden JSON parses");
        for case in v.as_array().expect("array of cases") {
            let fs: Vec<Frame> = if let Some(frames) = case.get("frames").and_then(|f| f.as_array()) {
                frames.iter().map(|f| Frame::new(
                    f["frame_type"].as_u64().unwrap() as u8, f["flags"].as_u64().unwrap() as u8, f["stream_id"].as_u64().unwrap() as u32,
                    f["payload"].as_array().unwrap().iter().map(|b| b.as_u64().unwrap() as u8).collect())).collect()
            } else {
                // signature-only cases "S|WU|P": rebuild the frames the signature describes
                let sig = case["expected_signature"].as_str().expect("expected_signature");
                let parts: Vec<&str> = sig.split('|').collect();
                let pairs: Vec<(u16, u32)> = parts[0].split(';').filter(|x| !x.is_empty()).map(|kv| { let (k, v) = kv.split_once(':').unwrap(); (k.parse().unwrap(), v.parse().unwrap()) }).collect();
                let mut fs = vec![settings_frame(&pairs)];
                if parts[1] != "00" { fs.push(window_update(0, parts[1].parse().unwrap(), false)); }
                if parts[2] != "0" { for p in parts[2].split(',') { let q: Vec<u32> = p.split(':').map(|x| x.parse().unwrap()).collect(); fs.push(priority_frame(q[0], q[1] != 0, q[2], (q[3] - 1) as u8)); } }
                fs
            };
            for pre in [true, false] {
                let data = frames_wire(pre, &fs);
                push_f(out, pre, &fs, &data);
                for c in 0..=data.len() { push_j(out, pre, &fs, &data, &[c]); }
            }
        }
    }
}

fn gen(r: &mut Rng, tier: &Tier, out: &mut Vec<String>) {
    golden(out);
    // ---- structured: frame sequences, one-shot (whole and truncated) and chunked
    let nseq = tier.scale(500, 6000);
    for k in 0..nseq {
        let fs = frame_sequence(r);
        let pre = r.chance(2, 3);
        let data = frames_wire(pre, &fs);
        push_f(out, pre, &fs, &data);
        if r.chance(1, 3) { let n = r.below(data.len() as u64 + 1) as usize; push_f(out, pre, &fs, &data[..n]); }
        // every 2-cut for a share of the sequences (all of them when short), random n-cuts for all
        let all_cuts = data.len() <= 120 || k % tier.scale(12, 6) == 0;
        if all_cuts { for c in 0..=data.len() { push_j(out, pre, &fs, &data, &[c]); } }
        else { for _ in 0..3 { let c = r.below(data.len() as u64 + 1) as usize; push_j(out, pre, &fs, &data, &[c]); } }
        for _ in 0..2 {
            let n = r.range(2, 6) as usize;
            let mut cuts: Vec<usize> = (0..n).map(|_| r.below(data.len() as u64 + 1) as usize).collect();
            cuts.sort();
            push_j(out, pre, &fs, &data, &cuts);
        }
        if r.chance(1, 10) { let cuts: Vec<usize> = (1..data.len().min(40)).collect(); push_j(out, pre, &fs, &data, &cuts); }     // byte by byte
        if r.chance(1, 10) { let n = r.below(data.len() as u64 + 1) as usize; let c = r.below(n as u64 + 1) as usize; push_j(out, pre, &fs, &data[..n], &[c]); }
    }
    // ---- exhaustive-small sweeps
    for w in [0u8, 1, 2, 127, 128, 254, 255] { for excl in [false, true] { for dep in [0u32, 1, 0x7fff_ffff] { for st in [0u32, 1, 0x7fff_ffff] {
        let fs = vec![priority_frame(st, excl, dep, w), settings_frame(&[(1, 65536)])];
        let data = frames_wire(false, &fs); push_f(out, false, &fs, &data);
    }}}}
    for inc in [0u32, 1, 2, 65535, 65536, 0x7fff_fffe, 0x7fff_ffff] { for rsv in [false, true] { for st in [0u32, 1] {
        let fs = vec![settings_frame(&[(4, 6291456)]), window_update(st, inc, rsv), window_update(0, 77, false)];
        let data = frames_wire(true, &fs); push_f(out, true, &fs, &data);
    }}}
    for id in [0u16, 1, 2, 3, 4, 5, 6, 7, 8, 9, 10, 255, 256, 65535] { for v in [0u32, 1, 0x7fff_ffff, 0x8000_0000, u32::MAX] {
        let fs = vec![settings_frame(&[(id, v), (id, 0), (3, v)])];
        let data = frames_wire(true, &fs); push_f(out, true, &fs, &data);
    }}
    // all 24 orders of the four pseudo-headers x framing of the HEADERS frame
    let mut perm: Vec<usize> = vec![0, 1, 2, 3];
    let mut perms = Vec::new();
    fn heap(k: usize, a: &mut Vec<usize>, out: &mut Vec<Vec<usize>>) { if k == 1 { out.push(a.clone()); return; } for i in 0..k { heap(k - 1, a, out); if k % 2 == 0 { a.swap(i, k - 1) } else { a.swap(0, k - 1) } } }
    heap(4, &mut perm, &mut perms);
    for p in &perms { for variant in 0..4 {
        let hs: Vec<(Vec<u8>, Vec<u8>)> = p.iter().map(|&i| (bv(PSEUDO[i].0), bv(PSEUDO[i].1))).collect();
        let mut t = Table::new();
        let items = choose_items(r, &hs, &EncOpts::mixed(), &mut t);
        let block = encode_items(&items);
        let mut fr = Framing::plain();
        match variant { 1 => fr.pad = Some(vec![0; 3]), 2 => fr.prio = Some([0x80, 0, 0, 0, 0xff]), 3 => fr.cuts = vec![block.len() / 2], _ => {} }
        let mut fs = vec![settings_frame(&[(1, 65536), (2, 0), (4, 6291456), (6, 262144)]), window_update(0, 15663105, false)];
        fs.extend(frames_of_block(&block, 1, &fr));
        let data = frames_wire(true, &fs); push_f(out, true, &fs, &data);
    }}
    // ---- malformed: raw bytes (truncations, bit flips, length lies, garbage), one-shot and chunked
    let nraw = tier.scale(300, 4000);
    for _ in 0..nraw {
        let fs = frame_sequence(r);
        let pre = r.chance(2, 3);
        let mut data = frames_wire(pre, &fs);
        match r.below(6) {
            0 => { let n = r.below(data.len() as u64 + 1) as usize; data.truncate(n); }
            1 => { if !data.is_empty() { let i = r.below(data.len() as u64) as usize; data[i] ^= 1 << r.below(8); } }
            2 => { if data.len() > 30 { let i = if pre { 24 } else { 0 }; data[i + r.below(3) as usize] = r.next() as u8; } }       // length lie in the first frame
            3 => { let n = r.below(40) as usize; data = r.bytes(n); }
            4 => { let k = r.below(24) as usize; let mut d = PREFACE[..k].to_vec(); d.extend(frames_wire(false, &fs)); data = d; } // damaged preface
            _ => { let mut d = data.clone(); d.extend_from_slice(PREFACE); d.extend(frames_wire(false, &fs)); data = d; }          // preface in the middle
        }
        out.push(format!("O {}", hex_or_dash(&data)));
        let n = r.range(1, 4) as usize;
        let mut cuts: Vec<usize> = (0..n).map(|_| r.below(data.len() as u64 + 1) as usize).collect();
        cuts.sort();
        out.push(format!("I {}", cut(&data, &cuts).join(" ")));
    }
    // a frame of exactly / just above the 16 KiB cap before SETTINGS
    for n in [16384usize, 16385] {
        let fs = vec![Frame::new(T_DATA, 0, 1, vec![0x61; n]), settings_frame(&[(3, 100)])];
        out.push(format!("O {}", hex(&frames_wire(true, &fs))));
    }
}

fn main() { main_cli(gen, run) }
