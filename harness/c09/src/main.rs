//! C09 harness: replays a trace of abstract TCP segment events through the real HTTP analyzer
//! (`huginn_net_http::http_process::process_http_ipv4` with a real `TtlCache<FlowKey, TcpFlow>` and
//! `HttpProcessors`) and prints one token per packet.  Line grammar: see coq/Extract/EC09.v.
use hnv_common::*;
use huginn_net_http::http::Version;
use huginn_net_http::http_process::{process_http_ipv4, process_http_ipv6, FlowKey, HttpProcessors, TcpFlow};
use pnet::packet::ipv4::Ipv4Packet;
use pnet::packet::ipv6::Ipv6Packet;
use ttl_cache::TtlCache;

#[derive(Clone, Debug)]
struct Ev { conn: u32, client: bool, flags: String, seq: u32, pay: Vec<u8> }

fn show_ev(e: &Ev) -> String {
    format!("{}{}:{}:{}:{}", e.conn, if e.client { 'c' } else { 's' }, if e.flags.is_empty() { "-" } else { &e.flags }, e.seq, hex_or_dash(&e.pay))
}
fn parse_ev(t: &str) -> Ev {
    let p: Vec<&str> = t.split(':').collect();
    let (who, dir) = p[0].split_at(p[0].len() - 1);
    Ev { conn: who.parse().unwrap(), client: dir == "c", flags: if p[1] == "-" { String::new() } else { p[1].to_string() },
         seq: p[2].parse().unwrap(), pay: unhex_or_dash(p[3]) }
}

/// wire image of an event (must agree with `wire` in coq/Model/HttpFlow.v):
///   conn n < 100          IPv4  10.0.1.n:40000+n -> 10.0.2.1:80
///   conn 100 <= n < 150   IPv4  10.0.2.1:40000+n -> 10.0.2.1:80   (same address, endpoints differ by port only)
///   conn 150 <= n < 200   IPv6  [::1]:40000+n    -> [::1]:80       (loopback, same address)
/// returns (is_ipv6, packet bytes)
fn packet(e: &Ev) -> (bool, Vec<u8>) {
    let cport = (40000 + e.conn) as u16;
    let (sp, dp) = if e.client { (cport, 80u16) } else { (80u16, cport) };
    let mut tcp = Vec::with_capacity(20 + e.pay.len());
    tcp.extend_from_slice(&sp.to_be_bytes()); tcp.extend_from_slice(&dp.to_be_bytes());
    tcp.extend_from_slice(&e.seq.to_be_bytes()); tcp.extend_from_slice(&[0, 0, 0, 0]);
    let mut fl = 0u8;
    for c in e.flags.chars() { fl |= match c { 'F' => 1, 'S' => 2, 'R' => 4, 'P' => 8, 'A' => 16, _ => 0 }; }
    tcp.extend_from_slice(&[0x50, fl, 0xff, 0xff, 0, 0, 0, 0]);
    tcp.extend_from_slice(&e.pay);
    if e.conn >= 150 {
        let lo = { let mut a = [0u8; 16]; a[15] = 1; a };
        let mut b = Vec::with_capacity(40 + tcp.len());
        b.extend_from_slice(&[0x60, 0, 0, 0, (tcp.len() >> 8) as u8, tcp.len() as u8, 6, 64]);
        b.extend_from_slice(&lo); b.extend_from_slice(&lo);
        b.extend(tcp);
        (true, b)
    } else {
        let sip = [10u8, 0, 2, 1];
        let cip = if e.conn >= 100 { sip } else { [10u8, 0, 1, e.conn as u8] };
        let (src, dst) = if e.client { (cip, sip) } else { (sip, cip) };
        let total = 20 + tcp.len();
        let mut b = Vec::with_capacity(total);
        b.extend_from_slice(&[0x45, 0, (total >> 8) as u8, total as u8, 0, 1, 0x40, 0, 64, 6, 0, 0]);
        b.extend_from_slice(&src); b.extend_from_slice(&dst);
        b.extend(tcp);
        (false, b)
    }
}

fn render_headers(hs: &[huginn_net_http::http_common::HttpHeader]) -> String {
    hs.iter().map(|h| format!("{}={}", hex(h.name.as_bytes()), hex(h.value.as_deref().unwrap_or("").as_bytes()))).collect::<Vec<_>>().join(",")
}
fn ver(v: &Version) -> &'static str { match v { Version::V10 => "10", Version::V11 => "11", Version::V20 => "20", Version::V30 => "30", _ => "any" } }

fn run(line: &str) -> String {
    let toks: Vec<&str> = line.split_whitespace().collect();
    let cap: usize = toks[0].parse().unwrap();
    let mut flows: TtlCache<FlowKey, TcpFlow> = TtlCache::new(cap);
    let procs = HttpProcessors::new();
    let mut outs = Vec::new();
    for t in &toks[1..] {
        let e = parse_ev(t);
        let (v6, buf) = packet(&e);
        let res = if v6 { process_http_ipv6(&Ipv6Packet::new(&buf).unwrap(), &mut flows, &procs) }
                  else { process_http_ipv4(&Ipv4Packet::new(&buf).unwrap(), &mut flows, &procs) };
        let tok = match res {
            Err(_) => "ERR".to_string(),
            Ok(p) => match (p.http_request, p.http_response) {
                (None, None) => "-".to_string(),
                (Some(q), None) => format!("Q.{}.{}.{}.{}", hex(q.method.as_deref().unwrap_or("").as_bytes()),
                                           hex(q.uri.as_deref().unwrap_or("").as_bytes()), ver(&q.matching.version), render_headers(&q.headers)),
                (None, Some(r)) => format!("R.{}.{}.{}", ver(&r.matching.version), r.status_code.unwrap_or(0), render_headers(&r.headers)),
                (Some(_), Some(_)) => "BOTH".to_string(),
            },
        };
        outs.push(tok);
    }
    outs.join(" ")
}

// ------------------------------------------------------------------------------------------------
// generators

const METHODS: &[&str] = &["GET", "POST", "PUT", "DELETE", "HEAD", "OPTIONS", "PATCH", "TRACE", "CONNECT", "PROPFIND", "COPY", "LOCK", "REPORT", "MKCALENDAR", "BREW"];
const REQ_HDRS: &[&str] = &["Host", "User-Agent", "Accept", "Accept-Language", "Accept-Encoding", "Connection", "X-Id", "Content-Length", "Content-Type", "Cache-Control", "DNT", "Upgrade-Insecure-Requests"];
const RESP_HDRS: &[&str] = &["Server", "Date", "Content-Type", "Content-Length", "Connection", "Vary", "ETag", "X-Cache", "Accept-Ranges", "Last-Modified", "Keep-Alive"];
const WORDS: &[&str] = &["a", "example.com", "Mozilla/5.0 (X11; Linux x86_64)", "text/html,application/xhtml+xml", "en-US,en;q=0.9", "gzip, deflate", "keep-alive", "close", "42", "nginx/1.18.0", "Apache", "max-age=0", "1", "bytes", "Tue, 01 Jan 2030 00:00:00 GMT", "x:y", ""];

/// connection number: ~15% of the connections have both endpoints on ONE address (100..149 IPv4 own address,
/// 150..199 IPv6 loopback); `not` keeps two connections of one trace apart
fn conn_id(r: &mut Rng, not: u32) -> u32 {
    loop {
        let id = if r.chance(3, 20) { if r.chance(1, 2) { 100 + r.below(50) as u32 } else { 150 + r.below(50) as u32 } } else { 1 + r.below(3) as u32 };
        if id != not { return id; }
    }
}

fn token(r: &mut Rng) -> String { let n = r.range(1, 6); (0..n).map(|_| (b'a' + r.below(26) as u8) as char).collect() }

fn gen_headers(r: &mut Rng, names: &[&str]) -> String {
    let mut s = String::new();
    for _ in 0..r.below(7) {
        let name = if r.chance(1, 6) { format!("X-{}", token(r)) } else { r.pick(names).to_string() };
        let val = if r.chance(1, 4) { token(r) } else { r.pick(WORDS).to_string() };
        let sep = match r.below(6) { 0 => ":", 1 => ":  ", _ => ": " };
        s.push_str(&format!("{}{}{}\r\n", name, sep, val));
    }
    s
}
fn gen_body(r: &mut Rng) -> Vec<u8> {
    match r.below(4) {
        0 => vec![],
        1 => { let n = r.range(1, 40) as usize; (0..n).map(|_| 32 + r.below(95) as u8).collect() }
        2 => b"<html><body>hello</body></html>\r\n".to_vec(),
        _ => { let n = r.range(1, 200) as usize; (0..n).map(|_| 1 + r.below(127) as u8).collect() }
    }
}
fn gen_request(r: &mut Rng) -> Vec<u8> {
    let m = if r.chance(9, 10) { *r.pick(&METHODS[..14]) } else { *r.pick(METHODS) };
    let uri = match r.below(4) { 0 => "/".to_string(), 1 => format!("/{}", token(r)), 2 => format!("/{}/{}?q={}", token(r), token(r), token(r)), _ => "/index.html".to_string() };
    let v = match r.below(8) { 0 => "HTTP/1.0", 7 => if r.chance(1, 2) { "HTTP/2.0" } else { "HTTP/1.2" }, _ => "HTTP/1.1" };
    let mut s = format!("{} {} {}\r\n{}\r\n", m, uri, v, gen_headers(r, REQ_HDRS)).into_bytes();
    s.extend(gen_body(r));
    s
}
fn gen_response(r: &mut Rng) -> Vec<u8> {
    let v = if r.chance(1, 6) { "HTTP/1.0" } else { "HTTP/1.1" };
    let st = *r.pick(&["200 OK", "404 Not Found", "301 Moved Permanently", "204 No Content", "500 Internal Server Error", "200", "99 Odd"]);
    let mut s = format!("{} {}\r\n{}\r\n", v, st, gen_headers(r, RESP_HDRS)).into_bytes();
    s.extend(gen_body(r));
    s
}

/// cut `data` into `k` non-empty consecutive pieces (fewer if data is shorter)
fn partition(r: &mut Rng, data: &[u8], k: usize) -> Vec<(usize, Vec<u8>)> {
    let n = data.len();
    if n == 0 { return vec![]; }
    let k = k.min(n).max(1);
    let mut cuts: Vec<usize> = Vec::new();
    while cuts.len() < k - 1 { let c = r.range(1, (n - 1) as u64) as usize; if !cuts.contains(&c) { cuts.push(c); } }
    cuts.sort();
    let mut res = Vec::new();
    let mut a = 0;
    for c in cuts.into_iter().chain(std::iter::once(n)) { res.push((a, data[a..c].to_vec())); a = c; }
    res
}

fn isn_for(r: &mut Rng, len: usize, mode: u64) -> u32 {
    match mode {
        0 => r.below(1 << 31) as u32,                                   // far from the wrap
        1 => 0,
        2 => (0u32).wrapping_sub(r.range(0, len as u64 + 2) as u32),    // 2^32 - k, k <= stream length + 2
        3 => (0u32).wrapping_sub(len as u32 + 2 + r.below(4) as u32),   // stream ends just below / at the wrap
        _ => r.next() as u32,
    }
}

fn data_events(conn: u32, client: bool, isn: u32, segs: &[(usize, Vec<u8>)]) -> Vec<Ev> {
    segs.iter().map(|(off, d)| Ev { conn, client, flags: "PA".into(), seq: isn.wrapping_add(1).wrapping_add(*off as u32), pay: d.clone() }).collect()
}

/// merge the two directions keeping each direction's own order; the SYN-ACK precedes all server data
fn interleave(r: &mut Rng, mut c: Vec<Ev>, mut s: Vec<Ev>, mode: u64) -> Vec<Ev> {
    let mut out = Vec::new();
    c.reverse(); s.reverse();
    match mode {
        0 => { while let Some(e) = c.pop() { out.push(e); } while let Some(e) = s.pop() { out.push(e); } }
        _ => { while !c.is_empty() || !s.is_empty() {
                   let take_c = if c.is_empty() { false } else if s.is_empty() { true } else { r.chance(1, 2) };
                   out.push(if take_c { c.pop().unwrap() } else { s.pop().unwrap() }); } }
    }
    out
}

fn permutations(n: usize) -> Vec<Vec<usize>> {
    fn go(cur: &mut Vec<usize>, used: &mut Vec<bool>, n: usize, out: &mut Vec<Vec<usize>>) {
        if cur.len() == n { out.push(cur.clone()); return; }
        for i in 0..n { if !used[i] { used[i] = true; cur.push(i); go(cur, used, n, out); cur.pop(); used[i] = false; } }
    }
    let mut out = Vec::new(); go(&mut Vec::new(), &mut vec![false; n], n, &mut out); out
}

fn line(cap: usize, evs: &[Ev]) -> String {
    let mut s = cap.to_string();
    for e in evs { s.push(' '); s.push_str(&show_ev(e)); }
    s
}

struct Conn { id: u32, cisn: u32, sisn: u32, req: Vec<(usize, Vec<u8>)>, resp: Vec<(usize, Vec<u8>)> }

fn conn_events(r: &mut Rng, c: &Conn, order_c: &[usize], order_s: &[usize], il: u64) -> Vec<Ev> {
    let syn = Ev { conn: c.id, client: true, flags: "S".into(), seq: c.cisn, pay: vec![] };
    let synack = Ev { conn: c.id, client: false, flags: "SA".into(), seq: c.sisn, pay: vec![] };
    let cd = data_events(c.id, true, c.cisn, &c.req);
    let sd = data_events(c.id, false, c.sisn, &c.resp);
    let mut cv = vec![Ev { conn: c.id, client: true, flags: "A".into(), seq: c.cisn.wrapping_add(1), pay: vec![] }];
    cv.extend(order_c.iter().map(|&i| cd[i].clone()));
    let mut sv = vec![synack];
    sv.extend(order_s.iter().map(|&i| sd[i].clone()));
    let mut out = vec![syn];
    out.extend(interleave(r, cv, sv, il));
    out
}

fn gen(r: &mut Rng, tier: &Tier, out: &mut Vec<String>) {
    // ---- stream 1: structured exchanges ----
    let n1 = tier.scale(1200, 20000);
    for i in 0..n1 {
        let req = gen_request(r); let resp = gen_response(r);
        let kc = r.range(1, 6) as usize; let ks = r.range(1, 6) as usize;
        let pc = partition(r, &req, kc); let ps = partition(r, &resp, ks);
        let isn_mode_c = match i % 8 { 0 | 1 | 2 => 0, 3 => 1, 4 | 5 => 2, 6 => 3, _ => 4 };
        let isn_mode_s = match (i / 8) % 6 { 0 | 1 | 2 => 0, 3 => 2, 4 => 3, _ => 4 };
        let c = Conn { id: conn_id(r, 0), cisn: isn_for(r, req.len(), isn_mode_c), sisn: isn_for(r, resp.len(), isn_mode_s), req: pc, resp: ps };
        let mut oc: Vec<usize> = (0..c.req.len()).collect(); let mut os: Vec<usize> = (0..c.resp.len()).collect();
        let kind = r.below(10);
        match kind {
            0..=3 => {}                                                            // in order
            4 | 5 => { r.shuffle(&mut oc); if r.chance(1, 2) { r.shuffle(&mut os); } }   // out of order
            6 => { if oc.len() > 2 { let k = r.range(1, oc.len() as u64 - 2) as usize; oc.remove(k); }   // lost middle segment(s)
                   if os.len() > 2 && r.chance(1, 2) { let k = r.range(1, os.len() as u64 - 2) as usize; os.remove(k); } }
            7 => { let k = r.below(oc.len() as u64) as usize; let at = r.range(k as u64 + 1, oc.len() as u64) as usize; oc.insert(at, k);   // retransmission
                   if r.chance(1, 2) { let k = r.below(os.len() as u64) as usize; let at = r.range(k as u64 + 1, os.len() as u64) as usize; os.insert(at, k); } }
            8 => { r.shuffle(&mut oc); let k = r.below(oc.len() as u64) as usize; let v = oc[k]; oc.push(v); }
            _ => { if oc.len() > 1 { let last = oc.len() - 1; oc.swap(0, last); } }
        }
        let il = r.below(3);
        let mut evs = conn_events(r, &c, &oc, &os, il);
        // flag variants: FIN on the last data segment of a direction / bare FINs at the end / RST
        match r.below(12) {
            0 => { if let Some(e) = evs.iter_mut().rev().find(|e| e.client && !e.pay.is_empty()) { e.flags = "FPA".into(); } }
            1 => { if let Some(e) = evs.iter_mut().rev().find(|e| !e.client && !e.pay.is_empty()) { e.flags = "FPA".into(); } }
            2 => { evs.push(Ev { conn: c.id, client: true, flags: "FA".into(), seq: c.cisn.wrapping_add(1 + req.len() as u32), pay: vec![] });
                   evs.push(Ev { conn: c.id, client: false, flags: "FA".into(), seq: c.sisn.wrapping_add(1 + resp.len() as u32), pay: vec![] }); }
            3 => { if let Some(e) = evs.iter_mut().find(|e| e.client && !e.pay.is_empty()) { if r.chance(1, 3) { e.flags = "RA".into(); } } }
            _ => {}
        }
        out.push(line(if r.chance(1, 10) { r.range(1, 3) as usize } else { 1000 }, &evs));
    }
    // ---- stream 1b: two connections interleaved ----
    let n2 = tier.scale(300, 5000);
    for _ in 0..n2 {
        let mut all: Vec<Vec<Ev>> = Vec::new();
        let id_a = conn_id(r, 0); let id_b = conn_id(r, id_a);
        for id in [id_a, id_b] {
            let req = gen_request(r); let resp = gen_response(r);
            let (kc, ks) = (r.range(1, 4) as usize, r.range(1, 4) as usize);
            let (m1, m2) = (r.below(5), r.below(5));
            let c = Conn { id, cisn: isn_for(r, req.len(), m1), sisn: isn_for(r, resp.len(), m2), req: partition(r, &req, kc), resp: partition(r, &resp, ks) };
            let mut oc: Vec<usize> = (0..c.req.len()).collect(); let os: Vec<usize> = (0..c.resp.len()).collect();
            if r.chance(1, 4) { r.shuffle(&mut oc); }
            let il = r.below(3);
            all.push(conn_events(r, &c, &oc, &os, il));
        }
        let b = all.pop().unwrap(); let a = all.pop().unwrap();
        let evs = interleave(r, a, b, 1);
        let cap = match r.below(6) { 0 => 1, 1 => 0, _ => 1000 };
        out.push(line(cap, &evs));
    }
    // ---- stream 1c: same-address connections (endpoints differ by port only), plain in-order exchanges ----
    // IPv4 own address (100..149) and IPv6 loopback (150..199), alone and interleaved with a distinct-address connection
    for i in 0..tier.scale(60, 600) {
        let id = if i % 2 == 0 { 100 + r.below(50) as u32 } else { 150 + r.below(50) as u32 };
        let req = gen_request(r); let resp = gen_response(r);
        let (kc, ks) = (r.range(1, 4) as usize, r.range(1, 4) as usize);
        let c = Conn { id, cisn: r.below(1 << 31) as u32, sisn: r.below(1 << 31) as u32, req: partition(r, &req, kc), resp: partition(r, &resp, ks) };
        let oc: Vec<usize> = (0..c.req.len()).collect(); let os: Vec<usize> = (0..c.resp.len()).collect();
        let il = r.below(3);
        let evs = conn_events(r, &c, &oc, &os, il);
        if i % 3 == 0 {
            let req2 = gen_request(r); let resp2 = gen_response(r);
            let c2 = Conn { id: 1 + r.below(3) as u32, cisn: r.below(1 << 31) as u32, sisn: r.below(1 << 31) as u32, req: partition(r, &req2, 2), resp: partition(r, &resp2, 2) };
            let o2c: Vec<usize> = (0..c2.req.len()).collect(); let o2s: Vec<usize> = (0..c2.resp.len()).collect();
            let evs2 = conn_events(r, &c2, &o2c, &o2s, 1);
            let both = interleave(r, evs, evs2, 1);
            out.push(line(1000, &both));
        } else {
            out.push(line(1000, &evs));
        }
    }
    // ---- stream 1d: a segment 2^31 or more beyond the ISN (the limit of 32-bit serial arithmetic: class `far`) ----
    for i in 0..tier.scale(40, 400) {
        let req = gen_request(r); let resp = gen_response(r);
        let c = Conn { id: conn_id(r, 0), cisn: r.next() as u32, sisn: r.next() as u32, req: partition(r, &req, 2), resp: partition(r, &resp, 2) };
        let oc: Vec<usize> = (0..c.req.len()).collect(); let os: Vec<usize> = (0..c.resp.len()).collect();
        let mut evs = conn_events(r, &c, &oc, &os, 1);
        let client = i % 2 == 0;
        let isn = if client { c.cisn } else { c.sisn };
        let far = Ev { conn: c.id, client, flags: "PA".into(), seq: isn.wrapping_add(1).wrapping_add((1u32 << 31) - 2 + r.below(4) as u32), pay: b"zzzz".to_vec() };
        // after the direction's SYN, anywhere among its data
        let first = evs.iter().position(|e| e.client == client && e.flags.contains('S')).unwrap();
        let at = r.range(first as u64 + 1, evs.len() as u64) as usize;
        evs.insert(at, far);
        out.push(line(1000, &evs));
    }
    // ---- stream 2: malformed / outside the specification's domain ----
    let n3 = tier.scale(300, 4000);
    for _ in 0..n3 {
        let req = gen_request(r); let resp = gen_response(r);
        let (m1, m2) = (r.below(5), r.below(5));
        let c = Conn { id: conn_id(r, 0), cisn: isn_for(r, req.len(), m1), sisn: isn_for(r, resp.len(), m2), req: partition(r, &req, 3), resp: partition(r, &resp, 2) };
        let oc: Vec<usize> = (0..c.req.len()).collect(); let os: Vec<usize> = (0..c.resp.len()).collect();
        let mut evs = conn_events(r, &c, &oc, &os, 1);
        match r.below(8) {
            0 => { evs.remove(0); }                                             // no SYN at all
            1 => { let k = r.below(evs.len() as u64) as usize; let e = evs[0].clone(); evs.insert(k, e); }   // duplicate SYN
            2 => { evs.retain(|e| !(e.flags == "SA")); }                        // server data without SYN-ACK
            3 => { evs[0].pay = req[..req.len().min(20)].to_vec(); }            // SYN with payload
            4 => { let n = evs.len(); let k = r.below(n as u64) as usize; evs.swap(0, k); }   // SYN not first
            5 => { for e in evs.iter_mut() { if !e.pay.is_empty() && r.chance(1, 3) { let k = r.below(e.pay.len() as u64) as usize; e.pay[k] = 1 + r.below(127) as u8; } } }
            6 => { for e in evs.iter_mut() { if !e.pay.is_empty() { e.pay.retain(|&b| b != b'\n' || false); if e.pay.is_empty() { e.pay.push(b'x'); } } } }   // heads never complete
            _ => { for e in evs.iter_mut() { e.client = !e.client; } }          // roles swapped: first packet is a server-side SYN
        }
        out.push(line(1000, &evs));
    }
    // ---- stream 3: exhaustive-small ----
    // one fixed exchange, request cut in 3 / 4 / 5 pieces at fixed places, every arrival order of the client segments,
    // ISN = 0, mid, and every 2^32-k with k <= request length + 2 (thorough) or a sample of them (quick)
    let req = b"GET /a HTTP/1.1\r\nHost: example.com\r\nAccept: x\r\n\r\nBODY".to_vec();
    let resp = b"HTTP/1.1 200 OK\r\nServer: nginx\r\nContent-Length: 2\r\n\r\nok".to_vec();
    let cutsets: &[&[usize]] = &[&[17, 36], &[5, 17, 40], &[10, 20, 30, 45], &[16, 47]];
    for cuts in cutsets {
        let mut segs = Vec::new(); let mut a = 0;
        for &c in cuts.iter().chain(std::iter::once(&req.len())) { segs.push((a, req[a..c].to_vec())); a = c; }
        let perms = permutations(segs.len());
        let ks: Vec<u32> = if tier.thorough { (0..=(req.len() as u32 + 2)).collect() } else { vec![0, 1, 2, 5, 17, 18, 36, 37, 47, req.len() as u32, req.len() as u32 + 1, req.len() as u32 + 2] };
        let mut isns: Vec<u32> = vec![0, 1_000_000];
        isns.extend(ks.iter().map(|k| 0u32.wrapping_sub(*k)));
        for (ii, isn) in isns.into_iter().enumerate() { for p in &perms {
            // every fourth ISN runs on a same-address connection (IPv4 own address / IPv6 loopback alternately)
            let id = match ii % 8 { 3 => 120, 7 => 170, _ => 1 };
            let c = Conn { id, cisn: isn, sisn: 777, req: segs.clone(), resp: vec![(0, resp.clone())] };
            let evs = conn_events(r, &c, p, &[0], 0);
            out.push(line(1000, &evs));
        }}
    }
    // every subset of the 4 segments of the request (lost segments), in order
    {
        let cuts = [17usize, 36, 47];
        let mut segs = Vec::new(); let mut a = 0;
        for &c in cuts.iter().chain(std::iter::once(&req.len())) { segs.push((a, req[a..c].to_vec())); a = c; }
        for mask in 1u32..16 {
            let order: Vec<usize> = (0..4).filter(|i| mask & (1 << i) != 0).collect();
            let c = Conn { id: 1, cisn: 5, sisn: 9, req: segs.clone(), resp: vec![(0, resp.clone())] };
            out.push(line(1000, &conn_events(r, &c, &order, &[0], 0)));
        }
    }
}

fn main() { main_cli(gen, run) }
