//! C15 harness.  Case grammar: coq/Extract/EC15.v.
//!  F: per crate copy of raw_filter.rs / packet_parser.rs (+ the unified parser): what the pre-parse filter
//!     extracts (recovered through the public `raw_filter::apply` by probing with single-purpose filters),
//!     what the analyzer's own decode yields (crate `parse_packet` + the real pnet views), and `apply`.
//!  T: which frames of a trace the filter admits, plus the implementation-level oracle: the real analyzer with
//!     the filter installed (`analyze_pcap`, or a real WorkerPool for p*) must report exactly what the same
//!     analyzer without a filter reports on the sub-trace the filter admits (`\t!...` otherwise).
mod frames;
use frames::*;
use hnv_common::*;
use pnet::packet::ip::IpNextHeaderProtocols;
use pnet::packet::ipv4::Ipv4Packet;
use pnet::packet::ipv6::Ipv6Packet;
use pnet::packet::tcp::TcpPacket;
use pnet::packet::Packet;
use std::net::{IpAddr, Ipv4Addr, Ipv6Addr};
use std::sync::atomic::{AtomicU64, Ordering};


fn show_ip(a: &IpAddr) -> String {
    match a { IpAddr::V4(x) => format!("4:{}", hex(&x.octets())), IpAddr::V6(x) => format!("6:{}", hex(&x.octets())) }
}
fn show_ep(e: &Ep) -> String { format!("{} {} {} {}", show_ip(&e.0), show_ip(&e.1), e.2, e.3) }
fn parse_addr(t: &str) -> IpAddr {
    let (v, h) = t.split_once(':').unwrap();
    let b = unhex(h);
    match v {
        "4" => IpAddr::V4(Ipv4Addr::new(b[0], b[1], b[2], b[3])),
        _ => { let mut a = [0u8; 16]; a.copy_from_slice(&b); IpAddr::V6(Ipv6Addr::from(a)) }
    }
}

/// the first lines of every analyzer's process.rs: protocol must be TCP, TcpPacket::new(ip.payload())
fn v4_ep(ip: &Ipv4Packet) -> Option<Ep> {
    if ip.get_next_level_protocol() != IpNextHeaderProtocols::Tcp { return None; }
    let t = TcpPacket::new(ip.payload())?;
    Some((IpAddr::V4(ip.get_source()), IpAddr::V4(ip.get_destination()), t.get_source(), t.get_destination()))
}
fn v6_ep(ip: &Ipv6Packet) -> Option<Ep> {
    if ip.get_next_header() != IpNextHeaderProtocols::Tcp { return None; }
    let t = TcpPacket::new(ip.payload())?;
    Some((IpAddr::V6(ip.get_source()), IpAddr::V6(ip.get_destination()), t.get_source(), t.get_destination()))
}
fn uni_endpoints(f: &[u8]) -> Option<Ep> {
    use huginn_net::packet_parser::{parse_packet, IpPacket};
    match parse_packet(f) {
        IpPacket::Ipv4(d) => v4_ep(&Ipv4Packet::new(d)?),
        IpPacket::Ipv6(d) => v6_ep(&Ipv6Packet::new(d)?),
        IpPacket::None => None,
    }
}

macro_rules! crate_mod {
    ($m:ident, $krate:ident) => {
        pub mod $m {
            use super::*;
            pub use $krate::{FilterConfig, FilterMode, IpFilter, PortFilter, SubnetFilter};
            /// builds the configuration from the tokens (EC14 grammar); returns it with the index of "E"
            pub fn build(toks: &[&str]) -> (FilterConfig, usize) {
                let mut cfg = FilterConfig::new().mode(if toks[0] == "D" { FilterMode::Deny } else { FilterMode::Allow });
                let mut pf: Option<PortFilter> = None;
                let mut ipf: Option<IpFilter> = None;
                let mut snf: Option<SubnetFilter> = None;
                let mut sec = ' ';
                let mut i = 1;
                while toks[i] != "E" {
                    let t = toks[i];
                    i += 1;
                    match t {
                        "P" => { sec = 'P'; pf = Some(PortFilter::new()); continue; }
                        "I" => { sec = 'I'; ipf = Some(IpFilter::new()); continue; }
                        "N" => { sec = 'N'; snf = Some(SubnetFilter::new()); continue; }
                        _ => {}
                    }
                    match sec {
                        'P' => {
                            let f = pf.take().unwrap();
                            let parts: Vec<&str> = t.split(':').collect();
                            let list = |s: &str| -> Vec<u16> { if s.is_empty() { vec![] } else { s.split(',').map(|x| x.parse().unwrap()).collect() } };
                            pf = Some(match parts[0] {
                                "any" => f.any_port(),
                                "d" => f.destination(parts[1].parse().unwrap()),
                                "s" => f.source(parts[1].parse().unwrap()),
                                "dl" => f.destination_list(list(parts[1])),
                                "sl" => f.source_list(list(parts[1])),
                                "dr" => f.destination_range(parts[1].parse().unwrap()..parts[2].parse().unwrap()),
                                "sr" => f.source_range(parts[1].parse().unwrap()..parts[2].parse().unwrap()),
                                _ => panic!("bad pop"),
                            });
                        }
                        'I' => {
                            let f = ipf.take().unwrap();
                            ipf = Some(match t { "so" => f.source_only(), "do" => f.destination_only(), _ => f.allow(&parse_addr(&t[2..]).to_string()).unwrap() });
                        }
                        'N' => {
                            let f = snf.take().unwrap();
                            snf = Some(match t {
                                "so" => f.source_only(), "do" => f.destination_only(),
                                _ => { let (a, p) = t[2..].split_once('/').unwrap(); f.allow(&format!("{}/{}", parse_addr(a), p)).unwrap() }
                            });
                        }
                        _ => panic!("op outside section"),
                    }
                }
                if let Some(f) = pf { cfg = cfg.with_port_filter(f); }
                if let Some(f) = ipf { cfg = cfg.with_ip_filter(f); }
                if let Some(f) = snf { cfg = cfg.with_subnet_filter(f); }
                (cfg, i)
            }
            pub fn apply(f: &[u8], c: &FilterConfig) -> bool { $krate::raw_filter::apply(f, c) }
            pub fn should(c: &FilterConfig, e: &Ep) -> bool { c.should_process(&e.0, &e.1, e.2, e.3) }
            pub fn endpoints(f: &[u8]) -> Option<Ep> {
                use $krate::packet_parser::{parse_packet, IpPacket};
                match parse_packet(f) { IpPacket::Ipv4(ip) => v4_ep(&ip), IpPacket::Ipv6(ip) => v6_ep(&ip), IpPacket::None => None }
            }
            fn allow_cfg() -> FilterConfig { FilterConfig::new().mode(FilterMode::Allow) }
            /// extract_quick_info is private: recover its result through `apply`.
            /// An Allow filter whose address list is empty rejects every recognised packet, so `apply` is true
            /// only when nothing was recognised (fail-open); addresses bit by bit with one-subnet filters,
            /// ports by bisection with one-range filters.
            pub fn quick(f: &[u8]) -> Option<Ep> {
                let app = |c: &FilterConfig| apply(f, c);
                if app(&allow_cfg().with_ip_filter(IpFilter::new())) { return None; }
                let side = |sf: SubnetFilter, src: bool| if src { sf.source_only() } else { sf.destination_only() };
                let addr = |src: bool| -> IpAddr {
                    let is4 = app(&allow_cfg().with_subnet_filter(side(SubnetFilter::new().allow("0.0.0.0/0").unwrap(), src)));
                    if is4 {
                        let mut v: u32 = 0;
                        for i in 0..32u32 {
                            let net = format!("{}/{}", Ipv4Addr::from(v), i + 1);
                            if !app(&allow_cfg().with_subnet_filter(side(SubnetFilter::new().allow(&net).unwrap(), src))) { v |= 1u32 << (31 - i); }
                        }
                        IpAddr::V4(Ipv4Addr::from(v))
                    } else {
                        let mut v: u128 = 0;
                        for i in 0..128u32 {
                            let net = format!("{}/{}", Ipv6Addr::from(v), i + 1);
                            if !app(&allow_cfg().with_subnet_filter(side(SubnetFilter::new().allow(&net).unwrap(), src))) { v |= 1u128 << (127 - i); }
                        }
                        IpAddr::V6(Ipv6Addr::from(v))
                    }
                };
                let port = |src: bool| -> u16 {
                    let one = |p: u16| if src { PortFilter::new().source(p) } else { PortFilter::new().destination(p) };
                    if app(&allow_cfg().with_port_filter(one(65535))) { return 65535; }
                    let (mut lo, mut hi) = (0u32, 65535u32);
                    while hi - lo > 1 {
                        let mid = (lo + hi) / 2;
                        let pf = if src { PortFilter::new().source_range(lo as u16..mid as u16) } else { PortFilter::new().destination_range(lo as u16..mid as u16) };
                        if app(&allow_cfg().with_port_filter(pf)) { hi = mid } else { lo = mid }
                    }
                    lo as u16
                };
                Some((addr(true), addr(false), port(true), port(false)))
            }
        }
    };
}
crate_mod!(m_tcp, huginn_net_tcp);
crate_mod!(m_http, huginn_net_http);
crate_mod!(m_tls, huginn_net_tls);

fn f_line(q: &Option<Ep>, a: &Option<Ep>, pass: bool) -> String {
    format!("quick={} analyzer={} pass={}", q.as_ref().map(show_ep).unwrap_or("FAILOPEN".into()),
            a.as_ref().map(show_ep).unwrap_or("NONE".into()), pass as u8)
}

fn run_f(toks: &[&str]) -> String {
    let (c1, i) = m_tcp::build(toks);
    let (c2, _) = m_http::build(toks);
    let (c3, _) = m_tls::build(toks);
    let f = unhex(toks[i + 2]);
    let (q1, q2, q3) = (m_tcp::quick(&f), m_http::quick(&f), m_tls::quick(&f));
    let (p1, p2, p3) = (m_tcp::apply(&f, &c1), m_http::apply(&f, &c2), m_tls::apply(&f, &c3));
    let l1 = f_line(&q1, &m_tcp::endpoints(&f), p1);
    let l2 = f_line(&q2, &m_http::endpoints(&f), p2);
    let l3 = f_line(&q3, &m_tls::endpoints(&f), p3);
    let l4 = f_line(&q1, &uni_endpoints(&f), p1);
    let mut out = if l1 == l2 && l2 == l3 && l3 == l4 { l1 } else { format!("tcp=[{}] http=[{}] tls=[{}] uni=[{}]", l1, l2, l3, l4) };
    // self-check of the probing: apply must be should_process on what the probes recovered
    let chk = |q: &Option<Ep>, p: bool, s: bool| q.is_none() && !p || q.is_some() && p != s;
    if chk(&q1, p1, q1.as_ref().map(|e| m_tcp::should(&c1, e)).unwrap_or(true))
        || chk(&q2, p2, q2.as_ref().map(|e| m_http::should(&c2, e)).unwrap_or(true))
        || chk(&q3, p3, q3.as_ref().map(|e| m_tls::should(&c3, e)).unwrap_or(true)) {
        out.push_str("\t!apply() is not should_process() on the endpoints recovered by probing");
    }
    out
}

// ---------------------------------------------------------------------------------------------
// trace level
static COUNTER: AtomicU64 = AtomicU64::new(0);
fn tmp_path() -> std::path::PathBuf {
    let base = std::env::current_exe().ok().and_then(|p| p.parent().and_then(|p| p.parent()).and_then(|p| p.parent()).map(|p| p.join("tmp")))
        .unwrap_or_else(std::env::temp_dir);
    let _ = std::fs::create_dir_all(&base);
    base.join(format!("c15_{}_{}.pcap", std::process::id(), COUNTER.fetch_add(1, Ordering::SeqCst)))
}
struct TmpPcap(std::path::PathBuf);
impl TmpPcap {
    fn write(frames: &[Vec<u8>]) -> TmpPcap {
        let p = tmp_path();
        let file = std::fs::File::create(&p).unwrap();
        let mut w = pcap_file::pcap::PcapWriter::new(file).unwrap();
        for (i, f) in frames.iter().enumerate() {
            w.write_packet(&pcap_file::pcap::PcapPacket::new(std::time::Duration::from_millis(i as u64), f.len() as u32, f)).unwrap();
        }
        w.flush().unwrap();
        TmpPcap(p)
    }
    fn path(&self) -> &str { self.0.to_str().unwrap() }
}
impl Drop for TmpPcap { fn drop(&mut self) { let _ = std::fs::remove_file(&self.0); } }

fn strip_timing(s: String) -> String {
    // `parsing_time_ns: <digits>` is wall-clock metadata
    let mut out = String::new();
    let mut rest = s.as_str();
    while let Some(k) = rest.find("parsing_time_ns: ") {
        out.push_str(&rest[..k]);
        out.push_str("parsing_time_ns: _");
        rest = rest[k + 17..].trim_start_matches(|c: char| c.is_ascii_digit());
    }
    out.push_str(rest);
    out
}

fn wait_drained<F: Fn() -> usize>(queued: F) {
    let t0 = std::time::Instant::now();
    while queued() > 0 && t0.elapsed().as_secs() < 20 { std::thread::sleep(std::time::Duration::from_millis(1)); }
}

/// how a trace is pushed through an analyzer
#[derive(Clone, Copy, PartialEq, Debug)]
enum Mode {
    Seq,      // one sequential analyzer object, analyze_pcap once per capture
    Obj,      // one parallel analyzer object (with_config + with_filter + init_pool), analyze_pcap once per capture
    ObjRe,    // same, init_pool called again before every capture (HTTP: after shutting the previous pool down)
    Pool,     // a WorkerPool built directly, all captures dispatched in order
}
const QUEUE: usize = 8192;

/// results per capture; modes whose pool outlives a capture return everything in one sorted group
fn run_tcp(caps: &[Vec<Vec<u8>>], cfg: Option<m_tcp::FilterConfig>, twice: bool, mode: Mode, notes: &mut Vec<String>) -> Vec<Vec<String>> {
    use huginn_net_tcp::*;
    let show = |rs: Vec<TcpAnalysisResult>| -> Vec<String> {
        rs.into_iter().filter(|r| r.syn.is_some() || r.syn_ack.is_some() || r.mtu.is_some() || r.client_uptime.is_some() || r.server_uptime.is_some())
            .map(|r| format!("{:?}", r)).collect() };
    let reject_all = || m_tcp::FilterConfig::new().mode(m_tcp::FilterMode::Allow).with_ip_filter(m_tcp::IpFilter::new());
    let install = |mut a: HuginnNetTcp| -> HuginnNetTcp { if let Some(c) = cfg.clone() { if twice { a = a.with_filter(reject_all()); } a = a.with_filter(c); } a };
    match mode {
        Mode::Seq => {
            let mut a = install(HuginnNetTcp::new(None, 1000).unwrap());
            caps.iter().map(|fs| { let (tx, rx) = std::sync::mpsc::channel(); let pc = TmpPcap::write(fs); a.analyze_pcap(pc.path(), tx, None).unwrap(); show(rx.iter().collect()) }).collect()
        }
        Mode::Obj | Mode::ObjRe => {
            // process_parallel shuts the pool down at the end of every analyze_pcap: a new capture needs a new init_pool
            let mut a = install(HuginnNetTcp::with_config(None, 1000, 3, QUEUE, 4, 2).unwrap());
            caps.iter().map(|fs| {
                let (tx, rx) = std::sync::mpsc::channel();
                a.init_pool(tx).unwrap();
                let (tx2, _rx2) = std::sync::mpsc::channel();
                let pc = TmpPcap::write(fs);
                a.analyze_pcap(pc.path(), tx2, None).unwrap();
                let mut v = show(rx.iter().collect()); v.sort();
                if let Some(st) = a.stats() { if st.total_dispatched + st.total_dropped != fs.len() as u64 || st.total_dropped != 0 {
                    notes.push(format!("tcp pool stats after a capture of {} frames: dispatched={} dropped={}", fs.len(), st.total_dispatched, st.total_dropped)); } }
                v
            }).collect()
        }
        Mode::Pool => {
            let (tx, rx) = std::sync::mpsc::channel();
            let pool = WorkerPool::new(3, QUEUE, 4, 2, tx, None, 1000, cfg).unwrap();
            for fs in caps { for f in fs { let _ = pool.dispatch(f.clone()); } }
            wait_drained(|| pool.stats().workers.iter().map(|w| w.queue_size).sum());
            pool.shutdown();
            let mut v = show(rx.iter().collect()); v.sort();
            vec![v]
        }
    }
}

fn run_http(caps: &[Vec<Vec<u8>>], cfg: Option<m_http::FilterConfig>, twice: bool, mode: Mode, notes: &mut Vec<String>) -> Vec<Vec<String>> {
    use huginn_net_http::*;
    let show = |rs: Vec<HttpAnalysisResult>| -> Vec<String> {
        rs.into_iter().filter(|r| r.http_request.is_some() || r.http_response.is_some()).map(|r| strip_timing(format!("{:?}", r))).collect() };
    let reject_all = || m_http::FilterConfig::new().mode(m_http::FilterMode::Allow).with_ip_filter(m_http::IpFilter::new());
    let install = |mut a: HuginnNetHttp| -> HuginnNetHttp { if let Some(c) = cfg.clone() { if twice { a = a.with_filter(reject_all()); } a = a.with_filter(c); } a };
    let total: usize = caps.iter().map(|c| c.len()).sum();
    match mode {
        Mode::Seq => {
            let mut a = install(HuginnNetHttp::new(None, 1000).unwrap());
            caps.iter().map(|fs| { let (tx, rx) = std::sync::mpsc::channel(); let pc = TmpPcap::write(fs); a.analyze_pcap(pc.path(), tx, None).unwrap(); show(rx.iter().collect()) }).collect()
        }
        Mode::Obj => {
            // process_parallel leaves the pool running: the same pool serves every capture
            let mut a = install(HuginnNetHttp::with_config(None, 1000, 3, QUEUE, 4, 2).unwrap());
            let (tx, rx) = std::sync::mpsc::channel();
            a.init_pool(tx).unwrap();
            for fs in caps {
                let (tx2, _rx2) = std::sync::mpsc::channel();
                let pc = TmpPcap::write(fs);
                a.analyze_pcap(pc.path(), tx2, None).unwrap();
                wait_drained(|| a.stats().map(|s| s.workers.iter().map(|w| w.queue_size).sum()).unwrap_or(0));
            }
            if let Some(st) = a.stats() { if st.total_dispatched != total as u64 || st.total_dropped != 0 {
                notes.push(format!("http pool stats after {} frames: dispatched={} dropped={}", total, st.total_dispatched, st.total_dropped)); } }
            if let Some(p) = a.worker_pool() { p.shutdown(); }
            drop(a);
            let mut v = show(rx.iter().collect()); v.sort();
            vec![v]
        }
        Mode::ObjRe => {
            // a fresh pool per capture through the same analyzer object (init_pool replaces the pool)
            let mut a = install(HuginnNetHttp::with_config(None, 1000, 3, QUEUE, 4, 2).unwrap());
            caps.iter().map(|fs| {
                let (tx, rx) = std::sync::mpsc::channel();
                a.init_pool(tx).unwrap();
                let (tx2, _rx2) = std::sync::mpsc::channel();
                let pc = TmpPcap::write(fs);
                a.analyze_pcap(pc.path(), tx2, None).unwrap();
                wait_drained(|| a.stats().map(|s| s.workers.iter().map(|w| w.queue_size).sum()).unwrap_or(0));
                let pool = a.worker_pool().cloned();
                if let Some(p) = &pool { p.shutdown(); }
                // the analyzer keeps its Arc to the (shut down) pool; its copy of the result sender is gone after shutdown
                let mut v = show(rx.iter().collect()); v.sort();
                v
            }).collect()
        }
        Mode::Pool => {
            let (tx, rx) = std::sync::mpsc::channel();
            let pool = WorkerPool::new(3, QUEUE, 4, 2, tx, None, 1000, cfg).unwrap();
            for fs in caps { for f in fs { let _ = pool.dispatch(f.clone()); } }
            wait_drained(|| pool.stats().workers.iter().map(|w| w.queue_size).sum());
            pool.shutdown();
            let mut v = show(rx.iter().collect()); v.sort();
            vec![v]
        }
    }
}

fn show_tls(r: &huginn_net_tls::TlsClientOutput) -> String {
    format!("{}:{} -> {}:{} {:?}", r.source.ip, r.source.port, r.destination.ip, r.destination.port, r.sig)
}
fn run_tls(caps: &[Vec<Vec<u8>>], cfg: Option<m_tls::FilterConfig>, twice: bool, mode: Mode, notes: &mut Vec<String>) -> Vec<Vec<String>> {
    use huginn_net_tls::*;
    let reject_all = || m_tls::FilterConfig::new().mode(m_tls::FilterMode::Allow).with_ip_filter(m_tls::IpFilter::new());
    let install = |mut a: HuginnNetTls| -> HuginnNetTls { if let Some(c) = cfg.clone() { if twice { a = a.with_filter(reject_all()); } a = a.with_filter(c); } a };
    let total: usize = caps.iter().map(|c| c.len()).sum();
    match mode {
        Mode::Seq => {
            let mut a = install(HuginnNetTls::new(1000));
            caps.iter().map(|fs| { let (tx, rx) = std::sync::mpsc::channel(); let pc = TmpPcap::write(fs); a.analyze_pcap(pc.path(), tx, None).unwrap(); rx.iter().map(|r| show_tls(&r)).collect() }).collect()
        }
        Mode::Obj | Mode::ObjRe => {
            // the pool is created once (init_pool is a no-op afterwards; ObjRe: created lazily by the first analyze_pcap,
            // init_pool then called before the later captures) and is never shut down by the analyzer
            let mut a = install(HuginnNetTls::with_config_and_max_connections(3, QUEUE, 4, 2, 1000));
            let (tx, rx) = std::sync::mpsc::channel::<TlsClientOutput>();
            if mode == Mode::Obj { a.init_pool(tx.clone()).unwrap(); }
            for (k, fs) in caps.iter().enumerate() {
                if mode == Mode::ObjRe && k > 0 { a.init_pool(tx.clone()).unwrap(); }
                let pc = TmpPcap::write(fs);
                a.analyze_pcap(pc.path(), tx.clone(), None).unwrap();
                wait_drained(|| a.stats().map(|s| s.workers.iter().map(|w| w.queue_size).sum()).unwrap_or(0));
            }
            let none = caps.iter().flatten().filter(|f| huginn_net_tls::packet_hash::hash_flow(f, 3).is_none()).count();
            if let Some(st) = a.stats() { if st.total_dispatched + st.total_dropped != total as u64 || st.total_dropped != none as u64 {
                notes.push(format!("tls pool stats after {} frames ({} without a flow): dispatched={} dropped={}", total, none, st.total_dispatched, st.total_dropped)); } }
            if let Some(p) = a.worker_pool() { p.shutdown(); }
            drop(a); drop(tx);
            let mut v: Vec<String> = rx.iter().map(|r| show_tls(&r)).collect(); v.sort();
            vec![v]
        }
        Mode::Pool => {
            let (tx, rx) = std::sync::mpsc::channel::<TlsClientOutput>();
            let pool = WorkerPool::new(3, QUEUE, 4, 2, tx, 1000, cfg).unwrap();
            for fs in caps { for f in fs { let _ = pool.dispatch(f.clone()); } }
            wait_drained(|| pool.stats().workers.iter().map(|w| w.queue_size).sum());
            pool.shutdown();
            let mut v: Vec<String> = rx.iter().map(|r| show_tls(&r)).collect(); v.sort();
            vec![v]
        }
    }
}
fn run_uni(caps: &[Vec<Vec<u8>>], cfg: Option<m_tcp::FilterConfig>, twice: bool) -> Vec<Vec<String>> {
    use huginn_net::*;
    let ac = AnalysisConfig { http_enabled: true, tcp_enabled: true, tls_enabled: true, matcher_enabled: false };
    let mut a = HuginnNet::new(None, 1000, Some(ac)).unwrap();
    if let Some(c) = cfg {
        if twice { a = a.with_filter(m_tcp::FilterConfig::new().mode(m_tcp::FilterMode::Allow).with_ip_filter(m_tcp::IpFilter::new())); }
        a = a.with_filter(c);
    }
    caps.iter().map(|fs| {
        let (tx, rx) = std::sync::mpsc::channel::<huginn_net::output::FingerprintResult>();
        let pc = TmpPcap::write(fs);
        a.analyze_pcap(pc.path(), tx, None).unwrap();
        rx.iter().filter(|r| r.tcp_syn.is_some() || r.tcp_syn_ack.is_some() || r.tcp_mtu.is_some() || r.tcp_client_uptime.is_some()
                         || r.tcp_server_uptime.is_some() || r.http_request.is_some() || r.http_response.is_some() || r.tls_client.is_some())
            .map(|r| strip_timing(format!("{:?}|{:?}|{:?}|{:?}|{:?}|{:?}|{:?}|{}", r.tcp_syn, r.tcp_syn_ack, r.tcp_mtu, r.tcp_client_uptime, r.tcp_server_uptime,
                                          r.http_request, r.http_response, r.tls_client.as_ref().map(show_tls).unwrap_or_default()))).collect()
    }).collect()
}

fn run_t(toks: &[&str]) -> String {
    let (ct, i) = m_tcp::build(toks);
    let (ch, _) = m_http::build(toks);
    let (cl, _) = m_tls::build(toks);
    let which = toks[i + 2];
    let frames: Vec<Vec<u8>> = toks[i + 3..].iter().map(|h| unhex(h)).collect();
    let ep: Vec<Option<Ep>> = frames.iter().map(|f| match which {
        "tcp" | "ptcp" => m_tcp::endpoints(f), "http" | "phttp" => m_http::endpoints(f), "tls" | "ptls" => m_tls::endpoints(f), _ => uni_endpoints(f) }).collect();
    let app: Vec<bool> = frames.iter().map(|f| match which {
        "http" | "phttp" => m_http::apply(f, &ch), "tls" | "ptls" => m_tls::apply(f, &cl), _ => m_tcp::apply(f, &ct) }).collect();
    let adm: Vec<String> = (0..frames.len()).filter(|&k| ep[k].is_some() && app[k]).map(|k| k.to_string()).collect();
    let mut out = format!("adm={}", adm.join(","));
    // implementation-level oracle (every trace: no known class is left after fix 3908c86)
    if frames.iter().any(|f| f.is_empty()) { return out; }
    // The trace is cut into two (every fifth length: three) consecutive captures that go through ONE analyzer object,
    // filtered; the admitted sub-trace, cut at the same places, goes through ONE unfiltered object of the same kind.
    // Derived from the case text only: which mode (p*: analyzer object in parallel mode, re-initialised pools, or a
    // WorkerPool built directly) and whether with_filter is called twice (a reject-all filter first: the last call wins).
    let h: usize = frames.iter().map(|f| f.len()).sum::<usize>() + frames.len();
    let ncap = if frames.len() % 5 == 0 { 3 } else { 2 };
    let cut = |k: usize| k * frames.len() / ncap;
    let twice = h % 4 == 1;
    let mode = if which.starts_with('p') { match h % 3 { 0 => Mode::Pool, 1 => Mode::Obj, _ => Mode::ObjRe } } else { Mode::Seq };
    let caps: Vec<Vec<Vec<u8>>> = (0..ncap).map(|c| frames[cut(c)..cut(c + 1)].to_vec()).collect();
    let sub = |should: &dyn Fn(&Ep) -> bool| -> Vec<Vec<Vec<u8>>> {
        (0..ncap).map(|c| (cut(c)..cut(c + 1)).filter(|&k| ep[k].as_ref().map(|e| should(e)).unwrap_or(false)).map(|k| frames[k].clone()).collect()).collect() };
    let mut notes = Vec::new();
    let (with, plain) = match which {
        "tcp" | "ptcp" => (run_tcp(&caps, Some(ct.clone()), twice, mode, &mut notes), run_tcp(&sub(&|e| m_tcp::should(&ct, e)), None, false, mode, &mut notes)),
        "http" | "phttp" => (run_http(&caps, Some(ch.clone()), twice, mode, &mut notes), run_http(&sub(&|e| m_http::should(&ch, e)), None, false, mode, &mut notes)),
        "tls" | "ptls" => (run_tls(&caps, Some(cl.clone()), twice, mode, &mut notes), run_tls(&sub(&|e| m_tls::should(&cl, e)), None, false, mode, &mut notes)),
        _ => (run_uni(&caps, Some(ct.clone()), twice), run_uni(&sub(&|e| m_tcp::should(&ct, e)), None, false)),
    };
    out.push_str(&format!("\tresults={} mode={:?}{} captures={}", with.iter().map(|v| v.len()).sum::<usize>(), mode, if twice { "+with_filter twice" } else { "" }, ncap));
    if with != plain {
        let g = (0..with.len().max(plain.len())).find(|&g| with.get(g) != plain.get(g)).unwrap();
        let (e1, e2) = (Vec::new(), Vec::new());
        let (w, p) = (with.get(g).unwrap_or(&e1), plain.get(g).unwrap_or(&e2));
        let k = (0..w.len().max(p.len())).find(|&k| w.get(k) != p.get(k)).unwrap_or(0);
        out.push_str(&format!("\t!{} ({:?}{}): capture {} of {} through the same analyzer object: filtered run reports {} results, unfiltered run on the admitted sub-trace {}; first difference at #{}: {:?} vs {:?}",
            which, mode, if twice { ", with_filter called twice" } else { "" }, g + 1, with.len(), w.len(), p.len(), k,
            w.get(k).map(|s| &s[..s.len().min(160)]), p.get(k).map(|s| &s[..s.len().min(160)])));
    }
    if !notes.is_empty() { out.push_str(&format!("\t!pool statistics with a filter installed: {}", notes.join("; "))); }
    out
}

fn run(line: &str) -> String {
    huginn_net_tcp::uptime::verif_hooks::set_frozen_clock(Some(1_700_000_000_000));
    let toks: Vec<&str> = line.split_whitespace().collect();
    let i = toks.iter().position(|t| *t == "E").unwrap();
    match toks[i + 1] { "F" => run_f(&toks), "T" => run_t(&toks), _ => "BADCASE".into() }
}

// ---------------------------------------------------------------------------------------------
// generators
fn ip_tok(a: &IpAddr) -> String { show_ip(a) }
fn near_port(r: &mut Rng, eps: &[Ep]) -> u16 {
    if eps.is_empty() || r.chance(1, 6) { return port(r); }
    let e = r.pick(eps);
    let p = if r.chance(1, 2) { e.2 } else { e.3 };
    match r.below(6) { 0 => p.wrapping_add(1), 1 => p.wrapping_sub(1), _ => p }
}
fn near_addr(r: &mut Rng, eps: &[Ep], v6: bool) -> IpAddr {
    if !eps.is_empty() && r.chance(5, 6) { let e = r.pick(eps); return if r.chance(1, 2) { e.0 } else { e.1 }; }
    if v6 { IpAddr::V6(addr6(r).into()) } else { IpAddr::V4(addr4(r).into()) }
}
/// a configuration (tokens up to and including E) whose constants sit at and around the given endpoints
fn cfg_near(r: &mut Rng, eps: &[Ep]) -> String {
    let v6 = eps.first().map(|e| e.0.is_ipv6()).unwrap_or(false);
    let mut s = String::from(if r.chance(2, 3) { "A" } else { "D" });
    let mut any = false;
    if r.chance(2, 3) {
        any = true;
        s.push_str(" P");
        for _ in 0..r.range(1, 3) {
            let p = near_port(r, eps);
            let op = match r.below(8) {
                0 | 1 => format!("d:{}", p), 2 => format!("s:{}", p),
                3 => format!("dr:{}:{}", p, p.saturating_add(r.below(3) as u16)),
                4 => format!("sr:{}:{}", p.saturating_sub(r.below(3) as u16), p.saturating_add(1)),
                5 => format!("dl:{},{}", p, near_port(r, eps)), 6 => "any".to_string(),
                _ => format!("sl:{}", p),
            };
            s.push(' '); s.push_str(&op);
        }
    }
    if r.chance(1, 3) {
        any = true;
        s.push_str(" I");
        for _ in 0..r.range(1, 3) {
            let op = match r.below(6) { 0 => "so".to_string(), 1 => "do".to_string(), _ => format!("a:{}", ip_tok(&near_addr(r, eps, v6))) };
            s.push(' '); s.push_str(&op);
        }
    }
    if r.chance(1, 3) || !any {
        s.push_str(" N");
        for _ in 0..r.range(1, 2) {
            let op = match r.below(6) {
                0 => "so".to_string(), 1 => "do".to_string(),
                _ => { let a = near_addr(r, eps, v6); let w = if a.is_ipv6() { 128 } else { 32 };
                       let p = *r.pick(&[0u64, 8, 16, 24, w - 1, w, w / 2]); format!("n:{}/{}", ip_tok(&a), p.min(w)) }
            };
            s.push(' '); s.push_str(&op);
        }
    }
    s.push_str(" E");
    s
}


// ---- Ethernet <-> NULL/loopback ambiguity (generator side only) ----
/// a well-formed Ethernet header whose first four bytes are a NULL/loopback header candidate `hdr`, whose byte 4 is `b4`
/// (version / IHL nibbles of an IP header at offset 4) and whose byte 10 (source MAC octet 4 = the IPv6 next-header byte
/// of that reading) is `b10`.  Bytes 12..13 = EtherType = the IPv4 "ttl, protocol" bytes of the loopback reading.
fn eth_null_alias(hdr: [u8; 4], b4: u8, b10: u8, ethertype: u16, inner: &[u8]) -> Vec<u8> {
    let mut f = vec![hdr[0], hdr[1], hdr[2], hdr[3], b4, 0x01, 0x02, 0x11, 0x22, 0x33, b10, 0x55];
    f.extend_from_slice(&ethertype.to_be_bytes());
    f.extend_from_slice(inner);
    f
}
/// every reading of a frame: Ethernet, raw IP and IP at offset 4 (whatever the family word says), without duplicates
fn readings_all(f: &[u8]) -> Vec<Ep> {
    let mut v = readings(f);
    if f.len() > 4 { v.extend(reading_v4(&f[4..])); v.extend(reading_v6(&f[4..])); }
    let mut out: Vec<Ep> = Vec::new();
    for e in v { if !out.contains(&e) { out.push(e); } }
    out
}
/// one-constant filters on each reading's own values: each admits (rejects) one reading and, when the readings differ
/// in that field, rejects (admits) the others
fn aimed_cfgs(eps: &[Ep]) -> Vec<String> {
    let mut cfgs = Vec::new();
    for e in eps {
        cfgs.push(format!("A P d:{} E", e.3));
        cfgs.push(format!("D N n:{}/{} do E", show_ip(&e.1), if e.1.is_ipv6() { 64 } else { 24 }));
        cfgs.push(format!("D P s:{} E", e.2));
        cfgs.push(format!("A I a:{} so E", show_ip(&e.0)));
    }
    if cfgs.is_empty() { cfgs.push("A P d:443 E".into()); cfgs.push("D N n:4:0a000000/8 E".into()); }
    cfgs
}
const NULL_ALIAS_HDRS: &[[u8; 4]] = &[[0x1e, 0, 0, 0], [0x1e, 0, 0x5e, 0], [0x02, 0, 0, 0], [0x1c, 0, 0, 0], [0x18, 0, 0, 0],
    [0, 0, 0, 0x02], [0, 0, 0, 0x1e], [0, 0, 0, 0x1c], [0x1e, 1, 0, 0]];
fn fixed_conn(k: usize, v6: bool) -> Conn {
    let k8 = k as u8;
    let mut c6 = [0u8; 16]; c6[0] = 0x20; c6[1] = 0x01; c6[2] = 0x0d; c6[3] = 0xb8; c6[15] = 3;
    let mut s6 = c6; s6[15] = 4;
    Conn { v6, c4: [10, 0, k8 % 3, 3], s4: [10, 0, 0, 4], c6, s6, cp: 40001 + (k as u16 % 7), sp: [443u16, 80, 8080][k % 3],
           isn_c: 0x1000_0000 + k as u32, isn_s: 0x2000_0000 + k as u32 }
}

fn gen_null_alias(tier: &Tier, out: &mut Vec<String>) {
    let mut amb: Vec<Vec<u8>> = Vec::new();
    // (A) well-formed Ethernet / IPv4|IPv6 / TCP frames whose header also reads as a loopback header followed by an IP header
    let mut k = 0usize;
    for hdr in NULL_ALIAS_HDRS { for b4 in [0x60u8, 0x6f, 0x45, 0x46, 0x4f, 0x40, 0x00] { for b10 in [6u8, 0, 17] { for v6 in [false, true] {
        if b10 == 17 && b4 != 0x60 { continue; }
        k += 1;
        let c = fixed_conn(k, v6);
        let kinds: &[u8] = if b4 == 0x60 && b10 == 6 { &[0, 5, 1] } else { &[0] };
        for &kind in kinds {
            let from_client = kind != 1;
            let f = eth_null_alias(*hdr, b4, b10, if v6 { 0x86dd } else { 0x0800 }, &c.ip(from_client, &c.seg(from_client, kind), 0, None));
            if b4 == 0x60 && b10 == 6 && kind == 0 && !v6 { for n in [47usize, 48, 53, 54] { amb.push(f[..n.min(f.len())].to_vec()); } }
            amb.push(f);
        }
    }}}}
    // the same headers with an EtherType that is not IP but whose low byte is 6 = "protocol TCP" of the loopback IPv4 reading
    // (ARP 0806, 8106), and a VLAN tag (8100): no Ethernet reading, the other readings must be tried in the analyzer's order
    for hdr in NULL_ALIAS_HDRS { for b4 in [0x45u8, 0x4f, 0x60, 0x40] { for et in [0x0806u16, 0x8106, 0x8100, 0x0006] {
        let mut body = vec![0u8; 72];
        for (j, b) in body.iter_mut().enumerate() { *b = (j as u8).wrapping_mul(11).wrapping_add(hdr[0]) | 1; }
        if et == 0x8100 { body[2] = 0x08; body[3] = 0x00; body[4] = 0x45; body[13] = 6; }
        amb.push(eth_null_alias(*hdr, b4, 6, et, &body));
    }}}
    // (B) loopback frames whose bytes 12..13 read as an EtherType (0800 / 86dd / 8100) and whose bytes from 14 on pass the
    //     quick TCP tests of that reading (IPv4: byte 23 = 6, IPv6: byte 20 = 6)
    for hdr in [[0x1eu8, 0, 0, 0], [0x02, 0, 0, 0], [0x1c, 0, 0, 0], [0x18, 0, 0, 0], [0x1e, 0, 0xbe, 0xef], [0, 0, 0, 0x1e]] {
        for (e0, e1) in [(0x08u8, 0x00u8), (0x86, 0xdd), (0x81, 0x00)] {
            for (inner_nibble, six_at) in [(0x45u8, 11usize), (0x45, 15), (0x60, 8), (0x46, 11), (0x60, 15)] {
                // loopback + IPv6: source address bytes 0..1 = EtherType, byte 2 = first byte of the Ethernet reading's IP header
                let mut a = [0u8; 16]; a[0] = e0; a[1] = e1; a[2] = inner_nibble; a[15] = 9; a[six_at] = 6;
                let mut b = [0u8; 16]; b[0] = 0x20; b[1] = 0x01; b[15] = 2;
                amb.push(null(hdr, &V6::new(a, b).build(&tcp_segment(12345, 443, 3, 0, SYN, 1024, &[], &[7u8; 24]))));
            }
            // loopback + IPv4: ttl, protocol = EtherType (not TCP: only the Ethernet reading can be TCP), and ttl = e0 with TCP
            for proto in [e1, 6] { for dst3 in [6u8, 2] {
                let mut h = V4::new([0x45, 0, 0, 60], [10, 0, 0, dst3]); h.ttl = e0; h.proto = proto;
                amb.push(null(hdr, &h.build(&tcp_segment(12345, 80, 9, 0, SYN, 2048, &[], &[6u8; 40]))));
            }}
        }
    }
    // raw IPv4 / IPv6 packets whose bytes 12..13 read 81 00 (VLAN tag: neither decoder follows it)
    for extra in [0usize, 24] {
        amb.push(V4::new([0x81, 0, 0x08, 0], [0x45, 0, 0, 6]).build(&tcp_segment(12345, 80, 9, 0, SYN, 2048, &[], &vec![6u8; extra])));
        let mut a = [0u8; 16]; a[0] = 0x20; a[1] = 0x01; a[4] = 0x81; a[5] = 0; a[6] = 0x08; a[7] = 0; a[8] = 0x45; a[15] = 6;
        let mut b = [0u8; 16]; b[0] = 0x20; b[15] = 2;
        amb.push(V6::new(a, b).build(&tcp_segment(12345, 443, 3, 0, SYN, 1024, &[], &vec![1u8; extra])));
    }
    for (n, f) in amb.iter().enumerate() {
        let cfgs = aimed_cfgs(&readings_all(f));
        let keep = tier.scale(3, 12).min(cfgs.len());
        // quick tier: rotate through the list so that every kind of constant and every reading is used across the family
        for j in 0..keep { let i = if keep == cfgs.len() { j } else { (n + j * 3) % cfgs.len() }; out.push(format!("{} F {}", cfgs[i], hex(f))); }
    }
    // traces: a connection on ordinary Ethernet framing and one whose frames also read as loopback / IPv6, through every analyzer
    let kinds = ["tcp", "http", "tls", "uni", "ptcp", "phttp", "ptls"];
    let mut t = 0usize;
    for which in kinds { for hdr in [[0x1eu8, 0, 0, 0], [0x1e, 0, 0x5e, 0], [0x1c, 0, 0, 0]] { for v6 in [false, true] {
        if v6 && hdr[2] != 0 { continue; }
        t += 1;
        let (ca, cb) = (fixed_conn(t, v6), fixed_conn(t + 1, v6));
        let plan: &[(bool, u8)] = match which {
            "tcp" | "ptcp" => &[(true, 0), (false, 1), (true, 2)],
            "http" | "phttp" => &[(true, 0), (false, 1), (true, 2), (true, 3), (false, 4)],
            "tls" | "ptls" => &[(true, 0), (false, 1), (true, 5)],
            _ => if t % 2 == 0 { &[(true, 0), (false, 1), (true, 3), (false, 4)] } else { &[(true, 0), (false, 1), (true, 5)] },
        };
        let et = if v6 { 0x86dd } else { 0x0800 };
        let mut frames: Vec<Vec<u8>> = Vec::new();
        for &(fc, kd) in plan {
            frames.push(eth(et, &ca.ip(fc, &ca.seg(fc, kd), 0, None)));
            frames.push(eth_null_alias(hdr, 0x60, 6, et, &cb.ip(fc, &cb.seg(fc, kd), 0, None)));
        }
        let mis = readings_all(&frames[frames.len() - 1]);
        let mut cfgs = vec![format!("A P d:{} E", cb.sp), format!("D P s:{} E", ca.cp), format!("A I a:{} E", show_ip(&cb.ep(true).0))];
        if let Some(e) = mis.last() { cfgs.push(format!("D P d:{} E", e.3)); cfgs.push(format!("A N n:{}/16 so E", show_ip(&e.0))); }
        let keep = tier.scale(2, 5).min(cfgs.len());
        for j in 0..keep { out.push(format!("{} T {} {}", cfgs[(t + j * 2) % cfgs.len()], which, frames.iter().map(|f| hex(f)).collect::<Vec<_>>().join(" "))); }
    }}}
}

fn gen(r: &mut Rng, tier: &Tier, out: &mut Vec<String>) {
    // ---- F stream 1: connection packets, every framing, honest and lying IHL ----
    let n1 = tier.scale(500, 12000);
    for _ in 0..n1 {
        let c = Conn::gen(r);
        let from_client = r.chance(1, 2);
        let kind = r.below(6) as u8;
        let opt_words = if r.chance(1, 2) { 0 } else { r.below(11) as usize };
        let ihl = if r.chance(1, 3) { Some(r.below(16) as u8) } else { None };
        let ip = c.ip(from_client, &c.seg(from_client, kind), opt_words, ihl);
        let f = wrap(framing(r, true), c.v6, &ip);
        let f = if r.chance(1, 6) { malformed(r, &f) } else { f };
        let eps = [c.ep(from_client)];
        for _ in 0..2 { out.push(format!("{} F {}", cfg_near(r, &eps), hex(&f))); }
    }
    // ---- F stream 2: exhaustive-small: IHL 0..15 x total length x framing x cut ----
    let framings: Vec<Framing> = { let mut v = vec![Framing::Eth, Framing::Raw, Framing::Vlan, Framing::EthMac(0x45)]; for h in NULL_HDRS { v.push(Framing::Null(*h)); } v };
    let cfgs = ["A P d:443 E", "D P s:12345 E", "A N n:4:0a000000/8 so E", "A I a:4:0a000002 do E"];
    for ihl in 0..16u8 {
        let off = 4 * (ihl.max(5) as usize);
        for tl in [0u16, 20, 4 * ihl as u16, 4 * ihl as u16 + 19, 4 * ihl as u16 + 20, 4 * ihl as u16 + 24, 1500] {
            for (k, fr) in framings.iter().enumerate() {
                for cut in [off + 3, off + 4, off + 19, off + 20, off + 24] {
                    let mut h = V4::new([10, 0, 0, 1], [10, 0, 0, 2]); h.ihl = Some(ihl); h.total_len = Some(tl);
                    let mut pay = vec![0u8; 64];
                    for (j, b) in pay.iter_mut().enumerate() { *b = (j as u8).wrapping_mul(7).wrapping_add(3); }
                    // ports 12345 -> 443 where the analyzer / filter look for them
                    if off >= 20 && off - 20 + 4 <= pay.len() { pay[off - 20..off - 20 + 4].copy_from_slice(&[0x30, 0x39, 0x01, 0xbb]); }
                    let mut ip = h.build(&pay);
                    ip.truncate(cut);
                    let f = wrap(*fr, false, &ip);
                    out.push(format!("{} F {}", cfgs[(k + ihl as usize + cut) % cfgs.len()], hex(&f)));
                }
            }
        }
    }
    // IPv6: payload length lies, next header, extension header, every framing, cuts
    for pl in [0u16, 19, 20, 24, 1000] { for next in [6u8, 0, 17, 43, 44, 60] { for fr in framings.iter() { for cut in [39usize, 40, 43, 44, 59, 60, 64] {
        let mut a = [0u8; 16]; a[0] = 0x20; a[1] = 0x01; a[15] = 1; let mut b = a; b[15] = 2;
        let mut h = V6::new(a, b); h.payload_len = Some(pl); h.next = next;
        let mut seg = tcp_segment(12345, 443, 1, 0, SYN, 1024, &[], &[0u8; 8]);
        if next != 6 { let mut e = vec![6u8, 0, 0, 0, 0, 0, 0, 0]; e.extend_from_slice(&seg); seg = e; }   // hop-by-hop / routing / ... header, then TCP
        let mut ip = h.build(&seg);
        ip.truncate(cut);
        out.push(format!("A P d:443 E F {}", hex(&wrap(*fr, true, &ip))));
    }}}}
    // raw IPv4 / IPv6 packets whose bytes 12..13 look like an ethertype (08 00, 86 dd), around the length thresholds
    for src in [[8u8, 0, 69, 0], [134, 221, 69, 0], [134, 221, 96, 0], [134, 221, 16, 1]] { for extra in [0usize, 1, 13, 14, 15, 20, 40] {
        let seg = tcp_segment(12345, 80, 7, 0, SYN, 1024, &[], &vec![6u8; extra]);
        let ip = V4::new(src, [10, 0, 0, 2]).build(&seg);
        out.push(format!("A P d:80 E F {}", hex(&ip)));
        out.push(format!("D N n:4:{}/16 E F {}", hex(&[src[0], src[1], 0, 0]), hex(&ip)));
    }}
    // ---- F stream 2b: frames decodable under two framings, with filters that separate the two readings ----
    // (a) well-formed Ethernet/IPv4|IPv6 TCP frames whose 14-byte Ethernet header also reads as the start of a raw IPv4 packet
    //     (byte 0 = 0x40..0x4f incl. every IHL nibble, byte 9 = 6) or of a raw IPv6 packet (byte 0 = 0x6_, byte 6 = 6);
    // (b) raw IPv4 / IPv6 packets whose bytes 12..13 read 08 00 / 86 dd and whose bytes from offset 14 on also pass the
    //     filter's TCP test (byte 23 = 6 resp. byte 20 = 6).
    // Both decoders must take the Ethernet reading (probe order Ethernet -> raw IP -> loopback).
    let mut ambiguous: Vec<Vec<u8>> = Vec::new();
    for b0 in 0x40u8..=0x4f { for v6 in [false, true] { for kind in [0u8, 3] {
        let mut c = Conn::gen(r); c.v6 = v6;
        let ip = c.ip(true, &c.seg(true, kind), if b0 & 1 == 0 { 0 } else { 2 }, None);
        let mut f = wrap(Framing::EthAlias4(b0), v6, &ip);
        while f.len() < 68 { f.push(0x5a); }                    // room for the raw reading's ports at 4*IHL (trailer bytes)
        ambiguous.push(f);
    }}}
    for b0 in [0x60u8, 0x61, 0x66, 0x6f] { for v6 in [false, true] { for kind in [0u8, 3, 5] {
        let mut c = Conn::gen(r); c.v6 = v6;
        ambiguous.push(wrap(Framing::EthAlias6(b0), v6, &c.ip(true, &c.seg(true, kind), 0, None)));
    }}}
    for _ in 0..tier.scale(150, 3000) {
        let mut c = Conn::gen(r); let v6 = c.v6;
        let dir = r.chance(1, 2); let kind = r.below(6) as u8;
        let fr = if r.chance(2, 3) { Framing::EthAlias4(0x40 + r.below(16) as u8) } else { Framing::EthAlias6(0x60 + r.below(16) as u8) };
        if r.chance(1, 4) { c.cp = 0x4006; }
        let mut f = wrap(fr, v6, &c.ip(dir, &c.seg(dir, kind), if r.chance(1, 2) { 0 } else { r.below(6) as usize }, None));
        if r.chance(1, 2) { while f.len() < 68 { f.push(r.next() as u8); } }
        ambiguous.push(f);
    }
    // (b) raw packets that also read as Ethernet
    for src in [[8u8, 0, 0x45, 0], [8, 0, 0x46, 7], [134, 221, 0x60, 0], [134, 221, 0x45, 1]] { for dport in [6u16, 262, 80] { for sport in [0x0601u16, 0x06ff, 12345] { for extra in [0usize, 24, 40] {
        let seg = tcp_segment(sport, dport, 9, 0, SYN, 2048, &[], &vec![6u8; extra]);
        ambiguous.push(V4::new(src, [10, 0, 0, 2]).build(&seg));
    }}}}
    for (b4, b5, six_at) in [(8u8, 0u8, 15usize), (0x86, 0xdd, 12)] { for extra in [0usize, 20] {
        let mut a = [0u8; 16]; a[0] = 0x20; a[1] = 0x01; a[4] = b4; a[5] = b5; a[six_at] = 6; a[6] = 0x45;
        let mut b = [0u8; 16]; b[0] = 0x20; b[1] = 0x01; b[15] = 2;
        ambiguous.push(V6::new(a, b).build(&tcp_segment(12345, 443, 3, 0, SYN, 1024, &[], &vec![1u8; extra])));
    }}
    for f in &ambiguous {
        let eps = readings(f);
        let mut cfgs: Vec<String> = Vec::new();
        for e in &eps {                                          // one-constant filters on each reading's own values
            cfgs.push(format!("A P d:{} E", e.3));
            cfgs.push(format!("D P s:{} E", e.2));
            cfgs.push(format!("A I a:{} so E", show_ip(&e.0)));
            cfgs.push(format!("D N n:{}/{} do E", show_ip(&e.1), if e.1.is_ipv6() { 64 } else { 24 }));
        }
        if cfgs.is_empty() { cfgs.push("A P d:443 E".into()); }
        cfgs.push(cfg_near(r, &eps));
        let keep = tier.scale(4, 9);
        for k in 0..cfgs.len().min(keep) { let i = if cfgs.len() <= keep { k } else { (k * 3 + f.len()) % cfgs.len() }; out.push(format!("{} F {}", cfgs[i], hex(f))); }
    }
    // ---- F stream 2c + T: frames decodable both as Ethernet and as loopback (fixed corpus, every seed) ----
    gen_null_alias(tier, out);
    // ---- F stream 3: malformed: every truncation and single-bit flips of a few valid frames ----
    let c = Conn::gen(r);
    for fr in [Framing::Eth, Framing::Raw, Framing::Null([0x1e, 0, 0, 0]), Framing::Null([2, 0, 0, 0])] {
        for v6 in [false, true] {
            let mut c2 = c.clone(); c2.v6 = v6;
            let f = wrap(fr, v6, &c2.ip(true, &c2.seg(true, 0), 1, None));
            let eps = [c2.ep(true)];
            let cfg = cfg_near(r, &eps);
            for n in 1..=f.len() { out.push(format!("{} F {}", cfg, hex(&f[..n]))); }
            let nb = tier.scale(60, 8 * f.len().min(70));
            for k in 0..nb { let mut g = f.clone(); let bit = if tier.thorough { k } else { r.below(8 * f.len().min(70) as u64) as usize }; g[bit / 8] ^= 1 << (bit % 8);
                out.push(format!("{} F {}", cfg, hex(&g))); }
        }
    }
    for _ in 0..tier.scale(200, 4000) { let n = r.range(1, 90) as usize; let f = r.bytes(n); out.push(format!("{} F {}", cfg_near(r, &[]), hex(&f))); }

    // ---- T stream: connections of the analyzer under test mixed with foreign and malformed frames ----
    let nt = tier.scale(700, 9000);
    let kinds = ["tcp", "http", "tls", "uni", "ptcp", "phttp", "ptls"];
    for t in 0..nt {
        let which = kinds[t % kinds.len()];
        let nconn = r.range(1, 3) as usize;
        let conns: Vec<Conn> = (0..nconn).map(|_| Conn::gen(r)).collect();
        let mut scripts: Vec<Vec<Vec<u8>>> = Vec::new();
        let mut eps: Vec<Ep> = Vec::new();
        for c in &conns {
            let an = r.chance(1, 8); let fr = framing(r, an);
            let opt_words = if r.chance(2, 3) { 0 } else { r.below(4) as usize };
            let ihl = if r.chance(1, 8) { Some(r.below(5) as u8) } else { None };
            let plan: &[(bool, u8)] = match which {
                "tcp" | "ptcp" => &[(true, 0), (false, 1), (true, 2)],
                "http" | "phttp" => &[(true, 0), (false, 1), (true, 2), (true, 3), (false, 4)],
                "tls" | "ptls" => &[(true, 0), (false, 1), (true, 5)],
                _ => if r.chance(1, 2) { &[(true, 0), (false, 1), (true, 3), (false, 4)] } else { &[(true, 0), (false, 1), (true, 5)] },
            };
            scripts.push(plan.iter().map(|&(fc, k)| wrap(fr, c.v6, &c.ip(fc, &c.seg(fc, k), opt_words, ihl))).collect());
            eps.push(c.ep(true)); eps.push(c.ep(false));
        }
        // interleave the scripts keeping each in order, sprinkle noise
        let mut frames: Vec<Vec<u8>> = Vec::new();
        let mut idx = vec![0usize; scripts.len()];
        loop {
            let live: Vec<usize> = (0..scripts.len()).filter(|&k| idx[k] < scripts[k].len()).collect();
            if live.is_empty() { break; }
            let k = *r.pick(&live);
            frames.push(scripts[k][idx[k]].clone()); idx[k] += 1;
            if r.chance(1, 4) { let base = r.pick(&scripts[k]).clone(); frames.push(malformed(r, &base)); }
            if r.chance(1, 10) { let mut h = V4::new(addr4(r), addr4(r)); h.proto = 17; frames.push(eth(0x0800, &h.build(&[0u8; 12]))); }
        }
        frames.retain(|f| !f.is_empty());
        out.push(format!("{} T {} {}", cfg_near(r, &eps), which, frames.iter().map(|f| hex(f)).collect::<Vec<_>>().join(" ")));
    }
}

fn main() { main_cli(gen, run) }
