//! Frame builders shared by the C15 and C18 generators (plain byte pushing, no pnet).
use hnv_common::Rng;
use std::net::IpAddr;
pub type Ep = (IpAddr, IpAddr, u16, u16);

pub fn tcp_segment(sport: u16, dport: u16, seq: u32, ack: u32, flags: u8, window: u16, options: &[u8], payload: &[u8]) -> Vec<u8> {
    let mut opts = options.to_vec();
    while opts.len() % 4 != 0 { opts.push(0); }
    let doff = (5 + opts.len() / 4) as u8;
    let mut t = Vec::new();
    t.extend_from_slice(&sport.to_be_bytes());
    t.extend_from_slice(&dport.to_be_bytes());
    t.extend_from_slice(&seq.to_be_bytes());
    t.extend_from_slice(&ack.to_be_bytes());
    t.push(doff << 4);
    t.push(flags);
    t.extend_from_slice(&window.to_be_bytes());
    t.extend_from_slice(&[0, 0, 0, 0]);
    t.extend_from_slice(&opts);
    t.extend_from_slice(payload);
    t
}

/// IPv4 header with `nopts` option words actually present; the IHL nibble and the total length can lie.
pub struct V4 { pub src: [u8; 4], pub dst: [u8; 4], pub proto: u8, pub opt_words: usize, pub ihl: Option<u8>, pub total_len: Option<u16>,
                pub version: u8, pub ttl: u8, pub id: u16, pub flags_frag: u16, pub tos: u8 }
impl V4 {
    pub fn new(src: [u8; 4], dst: [u8; 4]) -> V4 { V4 { src, dst, proto: 6, opt_words: 0, ihl: None, total_len: None, version: 4, ttl: 64, id: 0x1234, flags_frag: 0x4000, tos: 0 } }
    pub fn build(&self, payload: &[u8]) -> Vec<u8> {
        let real_ihl = 5 + self.opt_words;
        let ihl = self.ihl.unwrap_or(real_ihl as u8) & 0x0f;
        let total = self.total_len.unwrap_or((real_ihl * 4 + payload.len()) as u16);
        let mut p = vec![(self.version << 4) | ihl, self.tos];
        p.extend_from_slice(&total.to_be_bytes());
        p.extend_from_slice(&self.id.to_be_bytes());
        p.extend_from_slice(&self.flags_frag.to_be_bytes());
        p.push(self.ttl);
        p.push(self.proto);
        p.extend_from_slice(&[0, 0]);
        p.extend_from_slice(&self.src);
        p.extend_from_slice(&self.dst);
        for _ in 0..self.opt_words { p.extend_from_slice(&[1, 1, 1, 1]); }
        p.extend_from_slice(payload);
        p
    }
}

pub struct V6 { pub src: [u8; 16], pub dst: [u8; 16], pub next: u8, pub payload_len: Option<u16>, pub version: u8, pub hop: u8 }
impl V6 {
    pub fn new(src: [u8; 16], dst: [u8; 16]) -> V6 { V6 { src, dst, next: 6, payload_len: None, version: 6, hop: 64 } }
    pub fn build(&self, payload: &[u8]) -> Vec<u8> {
        let mut p = vec![self.version << 4, 0, 0, 0];
        p.extend_from_slice(&self.payload_len.unwrap_or(payload.len() as u16).to_be_bytes());
        p.push(self.next);
        p.push(self.hop);
        p.extend_from_slice(&self.src);
        p.extend_from_slice(&self.dst);
        p.extend_from_slice(payload);
        p
    }
}

pub fn eth(ethertype: u16, inner: &[u8]) -> Vec<u8> {
    let mut f = vec![0x02, 0, 0, 0, 0, 1, 0x02, 0, 0, 0, 0, 2];
    f.extend_from_slice(&ethertype.to_be_bytes());
    f.extend_from_slice(inner);
    f
}
pub fn eth_mac(dst0: u8, ethertype: u16, inner: &[u8]) -> Vec<u8> { let mut f = eth(ethertype, inner); f[0] = dst0; f }
pub fn vlan(ethertype: u16, inner: &[u8]) -> Vec<u8> {
    let mut f = vec![0x02, 0, 0, 0, 0, 1, 0x02, 0, 0, 0, 0, 2, 0x81, 0x00, 0x00, 0x64];
    f.extend_from_slice(&ethertype.to_be_bytes());
    f.extend_from_slice(inner);
    f
}
pub fn null(hdr: [u8; 4], inner: &[u8]) -> Vec<u8> { let mut f = hdr.to_vec(); f.extend_from_slice(inner); f }

pub const NULL_HDRS: &[[u8; 4]] = &[[0x02, 0, 0, 0], [0x18, 0, 0, 0], [0x1c, 0, 0, 0], [0x1e, 0, 0, 0], [0x1e, 0, 0, 1], [0x1e, 0, 1, 0],
    [0, 0, 0, 0x02], [0, 0, 0, 0x1e], [0, 0, 0, 0x1c], [0x1e, 1, 0, 0], [0x1f, 0, 0, 0]];

pub const ADDR4: &[[u8; 4]] = &[[10, 0, 0, 1], [10, 0, 0, 2], [192, 168, 1, 1], [192, 168, 1, 77], [172, 16, 5, 5], [8, 0, 3, 4], [134, 221, 16, 9],
    [134, 221, 64, 1], [134, 221, 96, 2], [8, 0, 69, 0], [8, 0, 70, 16], [0, 0, 0, 0], [255, 255, 255, 255], [69, 0, 0, 40], [96, 0, 0, 0]];
pub fn addr4(r: &mut Rng) -> [u8; 4] { if r.chance(4, 5) { *r.pick(ADDR4) } else { let b = r.bytes(4); [b[0], b[1], b[2], b[3]] } }
pub fn addr6(r: &mut Rng) -> [u8; 16] {
    let mut a = [0u8; 16];
    match r.below(5) {
        0 => { a[0] = 0x20; a[1] = 0x01; a[2] = 0x0d; a[3] = 0xb8; a[15] = r.below(3) as u8 + 1; }
        1 => { a[0] = 0xfe; a[1] = 0x80; a[15] = r.below(3) as u8 + 1; }
        2 => { a[0] = 0x20; a[1] = 0x01; a[4] = 0x08; a[5] = 0x00; a[15] = 9; }       // bytes 12..13 of a raw IPv6 packet = 08 00
        3 => { a[0] = 0x20; a[1] = 0x01; a[4] = 0x86; a[5] = 0xdd; a[15] = 7; }       // ... = 86 dd
        _ => { let b = r.bytes(16); a.copy_from_slice(&b); }
    }
    a
}
pub const PORTS: &[u16] = &[0, 1, 79, 80, 81, 442, 443, 444, 1023, 1024, 8080, 12345, 40000, 65534, 65535];
pub fn port(r: &mut Rng) -> u16 { if r.chance(3, 4) { *r.pick(PORTS) } else { r.below(65536) as u16 } }

pub const SYN: u8 = 0x02; pub const ACK: u8 = 0x10; pub const PSH: u8 = 0x08; pub const FIN: u8 = 0x01; pub const RST: u8 = 0x04;
pub const SYN_OPTS: &[u8] = &[2, 4, 5, 0xb4, 1, 3, 3, 7, 4, 2, 0, 0];      // mss 1460, nop, ws 7, sackOK, eol eol

/// a minimal TLS 1.2/1.3 ClientHello record (SNI example.com, supported_versions 1.3/1.2, ALPN h2)
pub fn client_hello() -> Vec<u8> {
    let mut ext = Vec::new();
    let host = b"example.com";
    // server_name
    ext.extend_from_slice(&[0, 0]); ext.extend_from_slice(&((host.len() + 5) as u16).to_be_bytes());
    ext.extend_from_slice(&((host.len() + 3) as u16).to_be_bytes()); ext.push(0); ext.extend_from_slice(&(host.len() as u16).to_be_bytes()); ext.extend_from_slice(host);
    // supported_groups
    ext.extend_from_slice(&[0, 10, 0, 4, 0, 2, 0, 29]);
    // signature_algorithms
    ext.extend_from_slice(&[0, 13, 0, 4, 0, 2, 4, 3]);
    // ALPN h2
    ext.extend_from_slice(&[0, 16, 0, 5, 0, 3, 2, b'h', b'2']);
    // supported_versions
    ext.extend_from_slice(&[0, 43, 0, 5, 4, 3, 4, 3, 3]);
    let mut body = vec![3, 3];
    body.extend_from_slice(&[0x11; 32]);
    body.push(0);
    body.extend_from_slice(&[0, 4, 0x13, 0x01, 0x13, 0x02]);
    body.extend_from_slice(&[1, 0]);
    body.extend_from_slice(&(ext.len() as u16).to_be_bytes());
    body.extend_from_slice(&ext);
    let mut hs = vec![1, 0];
    hs.extend_from_slice(&(body.len() as u16).to_be_bytes());
    hs.extend_from_slice(&body);
    let mut rec = vec![0x16, 3, 1];
    rec.extend_from_slice(&(hs.len() as u16).to_be_bytes());
    rec.extend_from_slice(&hs);
    rec
}
pub const HTTP_REQ: &[u8] = b"GET /index.html HTTP/1.1\r\nHost: example.com\r\nUser-Agent: curl/8.0\r\nAccept: */*\r\n\r\n";
pub const HTTP_RESP: &[u8] = b"HTTP/1.1 200 OK\r\nServer: nginx\r\nContent-Type: text/html\r\nContent-Length: 0\r\n\r\n";

#[derive(Clone)]
pub struct Conn { pub v6: bool, pub c4: [u8; 4], pub s4: [u8; 4], pub c6: [u8; 16], pub s6: [u8; 16], pub cp: u16, pub sp: u16, pub isn_c: u32, pub isn_s: u32 }
impl Conn {
    pub fn gen(r: &mut Rng) -> Conn {
        let mut c = Conn { v6: r.chance(1, 4), c4: addr4(r), s4: addr4(r), c6: addr6(r), s6: addr6(r), cp: port(r), sp: *r.pick(&[80u16, 443, 8080, 22, 0, 65535]),
                           isn_c: r.next() as u32, isn_s: r.next() as u32 };
        if c.c4 == c.s4 && c.cp == c.sp { c.cp = c.cp.wrapping_add(1); }
        c
    }
    pub fn ep(&self, from_client: bool) -> Ep {
        let (a, b) = if self.v6 { (IpAddr::V6(self.c6.into()), IpAddr::V6(self.s6.into())) } else { (IpAddr::V4(self.c4.into()), IpAddr::V4(self.s4.into())) };
        if from_client { (a, b, self.cp, self.sp) } else { (b, a, self.sp, self.cp) }
    }
    pub fn ip(&self, from_client: bool, seg: &[u8], opt_words: usize, ihl: Option<u8>) -> Vec<u8> {
        if self.v6 {
            let (s, d) = if from_client { (self.c6, self.s6) } else { (self.s6, self.c6) };
            V6::new(s, d).build(seg)
        } else {
            let (s, d) = if from_client { (self.c4, self.s4) } else { (self.s4, self.c4) };
            let mut h = V4::new(s, d); h.opt_words = opt_words; h.ihl = ihl; h.build(seg)
        }
    }
    pub fn seg(&self, from_client: bool, kind: u8) -> Vec<u8> {
        let (sp, dp) = if from_client { (self.cp, self.sp) } else { (self.sp, self.cp) };
        match kind {
            0 => tcp_segment(sp, dp, self.isn_c, 0, SYN, 65535, SYN_OPTS, &[]),
            1 => tcp_segment(sp, dp, self.isn_s, self.isn_c.wrapping_add(1), SYN | ACK, 28960, SYN_OPTS, &[]),
            2 => tcp_segment(sp, dp, self.isn_c.wrapping_add(1), self.isn_s.wrapping_add(1), ACK, 512, &[], &[]),
            3 => tcp_segment(sp, dp, self.isn_c.wrapping_add(1), self.isn_s.wrapping_add(1), PSH | ACK, 512, &[], HTTP_REQ),
            4 => tcp_segment(sp, dp, self.isn_s.wrapping_add(1), self.isn_c.wrapping_add(100), PSH | ACK, 512, &[], HTTP_RESP),
            _ => tcp_segment(sp, dp, self.isn_c.wrapping_add(1), self.isn_s.wrapping_add(1), PSH | ACK, 512, &[], &client_hello()),
        }
    }
}

#[derive(Clone, Copy)]
/// EthAlias4(b): Ethernet whose header also reads as the start of a raw IPv4 packet (dst MAC octet 0 = b in 0x40..0x4f,
/// src MAC octet 3 = 6 = the byte where IPv4 keeps "protocol TCP"); EthAlias6(b): ... of a raw IPv6 packet (dst MAC
/// octet 0 = b in 0x60..0x6f, src MAC octet 0 = 6 = the next-header byte).  Real NICs have such MACs (44:d8:84.., 60:..).
pub enum Framing { Eth, Raw, Null([u8; 4]), Vlan, EthMac(u8), EthAlias4(u8), EthAlias6(u8) }
pub fn wrap(fr: Framing, v6: bool, ip: &[u8]) -> Vec<u8> {
    let et = if v6 { 0x86DD } else { 0x0800 };
    match fr { Framing::Eth => eth(et, ip), Framing::Raw => ip.to_vec(), Framing::Null(h) => null(h, ip), Framing::Vlan => vlan(et, ip), Framing::EthMac(b) => eth_mac(b, et, ip),
               Framing::EthAlias4(b) => eth_alias(b, 9, et, ip), Framing::EthAlias6(b) => eth_alias(b, 6, et, ip) }
}
/// Ethernet header with dst MAC octet 0 = b0 and header byte `six_at` = 6; the other MAC octets vary with b0
pub fn eth_alias(b0: u8, six_at: usize, ethertype: u16, inner: &[u8]) -> Vec<u8> {
    let mut f = vec![b0, 0xd8, 0x84, 0x10, 0x20, 0x30, 0x48, 0xd7, 0x05, 0x40, 0x50, b0.wrapping_mul(3)];
    f[six_at] = 6;
    f.extend_from_slice(&ethertype.to_be_bytes());
    f.extend_from_slice(inner);
    f
}
/// endpoints a decoder would read if the bytes `p` were an IPv4 / IPv6 packet (minimal checks, like extract_ipv*_info);
/// generator-side only: used to aim filter constants at both readings of an ambiguous frame
pub fn reading_v4(p: &[u8]) -> Option<Ep> {
    if p.len() < 20 || p[9] != 6 { return None; }
    let off = 4 * ((p[0] & 0x0f) as usize).max(5);
    if p.len() < off + 4 { return None; }
    Some((IpAddr::V4([p[12], p[13], p[14], p[15]].into()), IpAddr::V4([p[16], p[17], p[18], p[19]].into()),
          u16::from_be_bytes([p[off], p[off + 1]]), u16::from_be_bytes([p[off + 2], p[off + 3]])))
}
pub fn reading_v6(p: &[u8]) -> Option<Ep> {
    if p.len() < 44 || p[6] != 6 { return None; }
    let mut a = [0u8; 16]; a.copy_from_slice(&p[8..24]);
    let mut b = [0u8; 16]; b.copy_from_slice(&p[24..40]);
    Some((IpAddr::V6(a.into()), IpAddr::V6(b.into()), u16::from_be_bytes([p[40], p[41]]), u16::from_be_bytes([p[42], p[43]])))
}
/// every reading of a frame under Ethernet and under raw IP framing
pub fn readings(f: &[u8]) -> Vec<Ep> {
    let mut v = Vec::new();
    if f.len() >= 14 { match (f[12], f[13]) { (0x08, 0x00) => v.extend(reading_v4(&f[14..])), (0x86, 0xdd) => v.extend(reading_v6(&f[14..])), _ => {} } }
    if !f.is_empty() { match f[0] >> 4 { 4 => v.extend(reading_v4(f)), 6 => v.extend(reading_v6(f)), _ => {} } }
    v
}
pub fn framing(r: &mut Rng, allow_null: bool) -> Framing {
    match r.below(10) { 0..=4 => Framing::Eth, 5 | 6 => Framing::Raw, 7 if allow_null => Framing::Null(*r.pick(NULL_HDRS)), 8 => match r.below(4) { 0 => Framing::EthMac(*r.pick(&[0x45u8, 0x46, 0x60, 0x1e])), 1 | 2 => Framing::EthAlias4(0x40 + r.below(16) as u8), _ => Framing::EthAlias6(0x60 + r.below(16) as u8) }, 9 if r.chance(1, 3) => Framing::Vlan, _ => Framing::Eth }
}


pub fn malformed(r: &mut Rng, base: &[u8]) -> Vec<u8> {
    let mut f = base.to_vec();
    match r.below(6) {
        0 => { let n = r.below(f.len() as u64 + 1) as usize; f.truncate(n.max(1)); }
        1 => { let k = r.below(f.len() as u64) as usize; f[k] ^= 1 << r.below(8); }
        2 => { let k = r.below(f.len().min(40) as u64) as usize; f[k] = r.next() as u8; }
        3 => { let n = r.range(1, 80) as usize; f = r.bytes(n); }
        4 => { let n = r.range(1, 30) as usize; f.extend(r.bytes(n)); }
        _ => { let k = r.below(f.len().min(24) as u64) as usize; f[k] ^= 0xff; }
    }
    f
}

