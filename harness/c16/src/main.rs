//! C16 harness: HTTP/2 requests and responses decoded per RFC 7540/7541.  Line grammar: coq/Extract/EC16.v.
use hn_h2gen::*;
use hnv_common::*;
use huginn_net_http::http2_parser::{Http2Parser, Http2Request, Http2Response};
use huginn_net_http::http2_process::{convert_http2_request_to_observable, convert_http2_response_to_observable, parse_http2_request};
use huginn_net_http::http_common::{HttpCookie, HttpHeader};
use huginn_net_http::http_languages::get_highest_quality_language;
use huginn_net_http::{Http2Processor, HttpProcessor, HttpProcessors};
use std::cell::RefCell;
mod packets;

/// [A-Za-z0-9._/-] literally, every other byte %xx (same as `escs` in EC16.v)
pub(crate) fn escs(s: &[u8]) -> String {
    let mut o = String::new();
    for &b in s {
        if b.is_ascii_alphanumeric() || b == b'-' || b == b'.' || b == b'_' || b == b'/' { o.push(b as char) } else { o.push_str(&format!("%{:02x}", b)) }
    }
    o
}
pub(crate) fn escs_opt(s: &Option<String>) -> String { match s { Some(x) => escs(x.as_bytes()), None => "~".into() } }
pub(crate) fn show_headers(hs: &[HttpHeader]) -> String {
    hs.iter().map(|h| format!("{}:{}:{}", h.position, escs(h.name.as_bytes()), escs_opt(&h.value))).collect::<Vec<_>>().join(",")
}
pub(crate) fn show_cookies(cs: &[HttpCookie]) -> String {
    cs.iter().map(|c| format!("{}:{}:{}", c.position, escs(c.name.as_bytes()), escs_opt(&c.value))).collect::<Vec<_>>().join(",")
}

fn show_request(req: &Http2Request, notes: &mut Vec<String>) -> String {
    let obs = convert_http2_request_to_observable(req.clone());
    if obs.headers != req.headers || obs.cookies != req.cookies || obs.referer != req.referer
        || obs.method.as_deref() != Some(req.method.as_str()) || obs.uri.as_deref() != Some(req.path.as_str()) {
        notes.push("!observable request fields differ from the parsed request".into());
    }
    format!("{} {} auth={} scheme={} hdr={} cookies={} referer={} ua={} lang={} sig={}",
        escs(req.method.as_bytes()), escs(req.path.as_bytes()), escs_opt(&req.authority), escs_opt(&req.scheme),
        show_headers(&req.headers), show_cookies(&req.cookies), escs_opt(&req.referer), escs_opt(&obs.user_agent),
        escs_opt(&obs.lang), escs(obs.matching.to_string().as_bytes()))
}
fn show_response(res: &Http2Response, notes: &mut Vec<String>) -> String {
    let obs = convert_http2_response_to_observable(res.clone());
    if obs.headers != res.headers || obs.status_code != Some(res.status) { notes.push("!observable response fields differ from the parsed response".into()); }
    format!("{} hdr={} sig={}", res.status, show_headers(&res.headers), escs(obs.matching.to_string().as_bytes()))
}

thread_local! { static SHARED: RefCell<Option<Http2Parser<'static>>> = RefCell::new(None); }

fn request(data: &[u8], notes: &mut Vec<String>) -> String {
    let fresh = Http2Parser::new();
    let out = match fresh.parse_request(data) { Err(_) => "ERR".to_string(), Ok(None) => "NONE".to_string(), Ok(Some(req)) => show_request(&req, notes) };
    // a parser that has already analysed other connections must give the same answer
    let again = SHARED.with(|p| { let mut p = p.borrow_mut(); let parser = p.get_or_insert_with(Http2Parser::new);
        let mut n2 = Vec::new();
        match parser.parse_request(data) { Err(_) => "ERR".to_string(), Ok(None) => "NONE".to_string(), Ok(Some(req)) => show_request(&req, &mut n2) } });
    if again != out { notes.push(format!("!a reused Http2Parser answers differently: {}", again)); }
    // the public processing entry points agree with the parser
    let via_fn = match parse_http2_request(data, &fresh) { Err(_) => "ERR".to_string(), Ok(None) => "NONE".to_string(), Ok(Some(o)) => format!("{} {}", escs_opt(&o.method), o.matching) };
    let expect_fn = match fresh.parse_request(data) { Err(_) => "ERR".to_string(), Ok(None) => "NONE".to_string(), Ok(Some(r)) => { let o = convert_http2_request_to_observable(r.clone()); format!("{} {}", escs(r.method.as_bytes()), o.matching) } };
    if via_fn != expect_fn { notes.push("!parse_http2_request differs from parse_request + convert".into()); }
    let procs = HttpProcessors::new();
    let via_p = procs.parse_request(data).map(|o| format!("{} {}", escs_opt(&o.method), o.matching));
    let expect_p = if expect_fn == "ERR" || expect_fn == "NONE" { None } else { Some(expect_fn) };
    if via_p != expect_p { notes.push(format!("!HttpProcessors::parse_request gives {:?}", via_p)); }
    out
}

fn response(data: &[u8], notes: &mut Vec<String>) -> String {
    let fresh = Http2Parser::new();
    let out = match fresh.parse_response(data) { Err(_) => "ERR".to_string(), Ok(None) => "NONE".to_string(), Ok(Some(res)) => show_response(&res, notes) };
    let again = SHARED.with(|p| { let mut p = p.borrow_mut(); let parser = p.get_or_insert_with(Http2Parser::new);
        let mut n2 = Vec::new();
        match parser.parse_response(data) { Err(_) => "ERR".to_string(), Ok(None) => "NONE".to_string(), Ok(Some(res)) => show_response(&res, &mut n2) } });
    if again != out { notes.push(format!("!a reused Http2Parser answers differently: {}", again)); }
    let proc_ = Http2Processor::new();
    let via = match proc_.process_response(data) { Err(_) => "ERR".to_string(), Ok(None) => "NONE".to_string(), Ok(Some(o)) => format!("{:?} {}", o.status_code, o.matching) };
    let expect = match fresh.parse_response(data) { Err(_) => "ERR".to_string(), Ok(None) => "NONE".to_string(), Ok(Some(r)) => { let st = r.status; let o = convert_http2_response_to_observable(r); format!("{:?} {}", Some(st), o.matching) } };
    if via != expect { notes.push("!Http2Processor::process_response differs from parse_response + convert".into()); }
    out
}

fn run(line: &str) -> String {
    let t: Vec<&str> = line.split_whitespace().collect();
    let mut notes = Vec::new();
    let res = match t[0] {
        "Q" => request(&unhex_or_dash(t[1]), &mut notes),
        "S" => response(&unhex_or_dash(t[1]), &mut notes),
        "G" => packets::run_g(line),
        "A" => { let data = unhex_or_dash(t[7]); if t[1] == "q" { request(&data, &mut notes) } else { response(&data, &mut notes) } }
        _ => "BADCASE".into(),
    };
    if notes.is_empty() { res } else { format!("{}\t{}", res, notes.join("\t")) }
}

/// the model leaves the language choice to the real function: `{al:<hex>}` -> language name or ~
fn post(_case: &str, line: &str) -> String {
    let mut out = String::new();
    let mut rest = line;
    while let Some(i) = rest.find("{al:") {
        out.push_str(&rest[..i]);
        let after = &rest[i + 4..];
        let j = after.find('}').unwrap_or(after.len());
        let v = String::from_utf8_lossy(&unhex(&after[..j])).to_string();
        match get_highest_quality_language(v) { Some(l) => out.push_str(&escs(l.as_bytes())), None => out.push('~') }
        rest = if j < after.len() { &after[j + 1..] } else { "" };
    }
    out.push_str(rest);
    out
}

// ------------------------------------------------------------------ generators
type H = (Vec<u8>, Vec<u8>);
fn h<V: AsRef<str>>(n: &str, v: V) -> H { (n.as_bytes().to_vec(), v.as_ref().as_bytes().to_vec()) }

const UAS: &[&str] = &["Mozilla/5.0 (X11; Linux x86_64) AppleWebKit/537.36 (KHTML, like Gecko) Chrome/120.0 Safari/537.36", "curl/8.4.0", "probe/1.0", "x", ""];
const LANGS: &[&str] = &["en-US,en;q=0.9", "de", "fr-CH, fr;q=0.9, en;q=0.8, de;q=0.7, *;q=0.5", "es;q=0.3,it;q=0.8", "xx", "", "en;q=abc", " ja "];
const COOKIES: &[&str] = &["a=b", "a=b; c=d", "sid=abc123; theme=dark; x", " x = y ;; z=", "=v", "k==v=", ";", "", "a=b;c=d;e", "n\tm= 1 "];
const PATHS: &[&str] = &["/", "/index.html", "/a/b?c=d&e=%20f", "*", "/%ff", "/with space"];

pub(crate) fn request_headers(r: &mut Rng, valid: bool) -> Vec<H> {
    let mut ps = vec![
        h(":method", r.pick(&["GET", "POST", "OPTIONS", "PUT", "x-odd"])), h(":path", r.pick(PATHS)),
        h(":authority", r.pick(&["example.com", "www.example.com:8443", "", "[::1]"])), h(":scheme", r.pick(&["https", "http"])),
    ];
    if r.chance(1, 3) { r.shuffle(&mut ps); }
    if r.chance(1, 4) { let k = r.below(4) as usize; ps.remove(k); }
    let mut hs = ps;
    let pool: Vec<H> = vec![
        h("user-agent", r.pick(UAS)), h("accept", "text/html,application/xhtml+xml;q=0.9,*/*;q=0.8"), h("accept-language", r.pick(LANGS)),
        h("accept-encoding", "gzip, deflate"), h("accept-encoding", "gzip, deflate, br"), h("cookie", r.pick(COOKIES)), h("cookie", r.pick(COOKIES)),
        h("referer", r.pick(&["https://example.com/", "", "x"])), h("cache-control", "no-cache"), h("accept-charset", "utf-8"),
        h("x-custom", "1"), h("x-empty", ""), h("te", "trailers"), h("content-type", "application/json"), h("host", "h.example"),
        h("origin", "https://o.example"), h("if-none-match", "\"abc\""), h("sec-ch-ua", "\"Chromium\";v=\"120\", \"Not=A?Brand\";v=\"8\""),
        h("upgrade-insecure-requests", "1"), h("dnt", "1"), h("connection", "keep-alive"), h("keep-alive", "timeout=5"),
    ];
    let n = r.below(9) as usize;
    for _ in 0..n { hs.push(r.pick(&pool).clone()); }
    if !valid {
        match r.below(9) {
            0 => hs.push(h("User-Agent", "UPPER/1.0")),
            1 => hs.push(h("Cookie", "U=1")),
            2 => hs.push((b"x-bin".to_vec(), vec![0xff, 0x41, 0xc3])),
            3 => hs.push((vec![b'x', 0xc3, 0x89], b"non-ascii name".to_vec())),
            4 => hs.push((vec![b'c', b'o', b'o', 0xe2, 0x84, 0xaa, b'i', b'e'], b"kelvin=1".to_vec())),
            5 => { hs.push(h("user-agent", "second/2.0")); hs.push(h("accept-language", "pt")); hs.push(h("referer", "https://second/")); }
            6 => { let i = r.below(hs.len() as u64 + 1) as usize; hs.insert(i, h(":path", "/dup")); }
            7 => hs.push((b"x-utf8".to_vec(), "gr\u{fc}\u{df}e \u{a0}".as_bytes().to_vec())),
            _ => hs.push((b"cookie".to_vec(), "\u{a0}n\u{2003}=\u{3000}v\u{85}".as_bytes().to_vec())),
        }
    }
    bare_pseudo_words(r, &mut hs, true);
    if r.chance(1, 20) { let l = *r.pick(&[126usize, 127, 128, 300, 5000]); hs.push((b"x-long".to_vec(), vec![b'a' + (r.below(26) as u8); l])); }
    hs
}

pub(crate) fn response_headers(r: &mut Rng, valid: bool) -> Vec<H> {
    let status = if valid { *r.pick(&["200", "204", "301", "404", "500", "999", "100"]) } else { *r.pick(&["abc", "+200", "65536", "65535", "0200", "", "20", "2000", "-1"]) };
    let mut hs = vec![h(":status", status)];
    let pool: Vec<H> = vec![
        h("server", r.pick(&["nginx/1.20", "Apache", "", "cloudflare"])), h("date", "Mon, 01 Jan 2024 00:00:00 GMT"), h("content-type", "text/html; charset=utf-8"),
        h("content-length", "1234"), h("set-cookie", "a=b; Path=/"), h("set-cookie", "c=d"), h("cache-control", "max-age=60"), h("vary", "Accept-Encoding"),
        h("etag", "\"x\""), h("x-custom", "v"), h("accept-ranges", "bytes"), h("connection", "close"), h("keep-alive", "x"), h("location", "/next"),
        h("strict-transport-security", "max-age=1"), h("x-empty", ""),
    ];
    let n = r.below(8) as usize;
    for _ in 0..n { hs.push(r.pick(&pool).clone()); }
    if !valid && r.chance(1, 2) { hs.push(h("Server", "Upper")); hs.push(h("server", "second")); }
    bare_pseudo_words(r, &mut hs, false);
    if r.chance(1, 30) { hs.insert(0, h("early", "x")); }
    hs
}

/// REGULAR header fields whose names are the pseudo-header words without the colon (and, less often, with two
/// colons): they must stay ordinary headers -- they neither replace :method / :path / :authority / :scheme /
/// :status nor leave the ordered list.  Values are chosen so that a confusion changes the result.
pub(crate) fn bare_pseudo_words(r: &mut Rng, hs: &mut Vec<H>, request: bool) {
    let n = if r.chance(1, 3) { r.range(1, 3) } else { 0 };
    for _ in 0..n {
        let (name, value): (&str, &str) = if request {
            *r.pick(&[("method", "queue.notify"), ("method", "DELETE"), ("path", "/internal/admin"), ("path", ""), ("authority", "evil.example"),
                      ("scheme", "ftp"), ("status", "502"), ("status", "200 OK"), ("method", ""), ("authority", "")])
        } else {
            *r.pick(&[("status", "502"), ("status", "200 OK"), ("status", ""), ("status", "99999"), ("method", "GET"), ("path", "/x"), ("scheme", "https"), ("authority", "a")])
        };
        let nm = if r.chance(1, 6) { format!("::{}", name) } else { name.to_string() };
        let pos = if r.chance(1, 4) { r.below(hs.len() as u64 + 1) as usize } else { hs.len() };      // mostly after the pseudo-headers
        hs.insert(pos, h(&nm, value));
    }
}

pub(crate) fn enc_opts(r: &mut Rng) -> EncOpts {
    match r.below(6) {
        0 => EncOpts { huffman: 0, indexing: 0, use_index: 0, size_updates: 0, avoid15: false },
        1 => EncOpts { huffman: 100, indexing: 100, use_index: 100, size_updates: 0, avoid15: false },
        2 => EncOpts { huffman: 50, indexing: 80, use_index: 90, size_updates: 30, avoid15: false },
        3 => EncOpts { huffman: 100, indexing: 0, use_index: 50, size_updates: 0, avoid15: true },
        _ => EncOpts::mixed(),
    }
}

pub(crate) fn ctl_frames(r: &mut Rng, sid: u32, strict: bool) -> Vec<Frame> {
    let n = r.below(5) as usize;
    let mut v = Vec::new();
    for _ in 0..n {
        let mut f = random_control(r);
        if strict && f.stream == sid { f.stream = 0; }
        if r.chance(1, 8) { f.rsv = true; }
        v.push(f);
    }
    v
}

#[allow(clippy::too_many_arguments)]
fn push_a(out: &mut Vec<String>, is_req: bool, ctl: &[Frame], sid: u32, items: &[Item], fr: &Framing, trail: &[Frame]) {
    let block = encode_items(items);
    let mut frames: Vec<Frame> = ctl.to_vec();
    frames.extend(frames_of_block(&block, sid, fr));
    frames.extend(trail.iter().cloned());
    let data = frames_wire(is_req, &frames);
    out.push(format!("A {} {} {} {} {} {} {}", if is_req { "q" } else { "s" }, frames_tok(ctl), sid, items_tok(items), fr.tok(), frames_tok(trail), hex_or_dash(&data)));
}

fn gen(r: &mut Rng, tier: &Tier, out: &mut Vec<String>) {
    packets::gen_g(r, tier, out);
    // ---- structured: header lists x encoder choices x framings x control prefixes / trailers
    let n = tier.scale(2500, 40000);
    for _ in 0..n {
        let is_req = r.chance(2, 3);
        let valid = r.chance(3, 4);
        let hs = if is_req { request_headers(r, valid) } else { response_headers(r, valid) };
        let mut t = Table::new();
        let eo = enc_opts(r); let items = choose_items(r, &hs, &eo, &mut t);
        let block = encode_items(&items);
        let fr = if r.chance(1, 3) { Framing::plain() } else { random_framing(r, block.len()) };
        let sid = *r.pick(&[1u32, 3, 5, 13, 0x7fff_ffff]);
        let strict = r.chance(5, 6);
        let ctl = ctl_frames(r, sid, strict);
        let mut trail = if r.chance(1, 3) { ctl_frames(r, sid, strict) } else { vec![] };
        if r.chance(1, 15) { trail.push(Frame::new(T_DATA, 1, sid, b"body".to_vec())); }
        if r.chance(1, 25) {   // a second header block (trailers on the same stream, or another request)
            let mut t2 = Table::new();
            let it2 = choose_items(r, &[h("x-trailer", "t"), h(":path", "/second")], &EncOpts::mixed(), &mut t2);
            trail.extend(frames_of_block(&encode_items(&it2), if r.chance(1, 2) { sid } else { sid.wrapping_add(2) & 0x7fff_ffff }, &Framing::plain()));
        }
        push_a(out, is_req, &ctl, sid, &items, &fr, &trail);
    }
    // ---- exhaustive-small: one request, every framing class; splits at every byte for blocks <= 64 bytes
    let base: Vec<Vec<H>> = vec![
        vec![h(":method", "GET"), h(":path", "/"), h(":scheme", "https"), h(":authority", "a.example"), h("x-k", "v")],
        vec![h(":method", "GET"), h(":scheme", "http"), h(":path", "/index.html"), h("accept", "*/*"), h("cookie", "a=b; c=d")],
        vec![h(":status", "200"), h("x-a", "1"), h("x-a", "2"), h("vary", "x")],
    ];
    for (bi, hs) in base.iter().enumerate() {
        let is_req = bi < 2;
        for variant in 0..3 {
            let mut t = Table::new();
            let o = match variant { 0 => EncOpts { huffman: 0, indexing: 0, use_index: 100, size_updates: 0, avoid15: true }, 1 => EncOpts { huffman: 100, indexing: 100, use_index: 0, size_updates: 0, avoid15: true }, _ => EncOpts::mixed() };
            let items = choose_items(r, hs, &o, &mut t);
            let block = encode_items(&items);
            for padn in [None, Some(0usize), Some(1), Some(2), Some(127), Some(255)] {
                for prio in [None, Some([0u8, 0, 0, 0, 0]), Some([0x80, 0, 0, 0, 0xff]), Some([0x7f, 0xff, 0xff, 0xff, 0x10])] {
                    let mut fr = Framing::plain();
                    fr.pad = padn.map(|k| vec![0u8; k]);
                    fr.prio = prio;
                    push_a(out, is_req, &[], 1, &items, &fr, &[]);
                    if block.len() <= 64 && (padn.is_none() || padn == Some(2)) {
                        for c in 0..=block.len() { let mut f2 = fr.clone(); f2.cuts = vec![c]; push_a(out, is_req, &[], 1, &items, &f2, &[]); }
                    }
                }
            }
            if block.len() <= 64 {
                for c1 in 0..=block.len() { for c2 in c1..=block.len() { if (c1 + c2) % tier.scale(5, 1) == 0 { let mut f2 = Framing::plain(); f2.cuts = vec![c1, c2]; push_a(out, is_req, &[], 3, &items, &f2, &[]); } } }
            }
            for e in [1u8, 2, 0x10, 0x40, 0x80, 0xd3] { let mut f2 = Framing::plain(); f2.extra_h = e; f2.extra_c = e & 0xfb; f2.cuts = vec![1]; push_a(out, is_req, &[], 1, &items, &f2, &[]); }
        }
    }
    // every pseudo-header word as the name of a regular header (bare, and with two colons), requests and responses
    for (name, value) in [("method", "queue.notify"), ("path", "/other"), ("authority", "evil.example"), ("scheme", "ftp"), ("status", "502"), ("status", "200 OK"), ("::path", "/x"), ("::status", "502")] {
        for pos_last in [true, false] {
            let mut q = vec![h(":method", "POST"), h(":path", "/"), h(":scheme", "https"), h(":authority", "a.example"), h("x-k", "v")];
            let mut p = vec![h(":status", "404"), h("x-k", "v")];
            if pos_last { q.push(h(name, value)); p.push(h(name, value)); } else { q.insert(4, h(name, value)); p.insert(1, h(name, value)); }
            for (is_req, hs) in [(true, q), (false, p)] {
                let mut t = Table::new();
                let items = choose_items(r, &hs, &EncOpts { huffman: 50, indexing: 50, use_index: 100, size_updates: 0, avoid15: true }, &mut t);
                push_a(out, is_req, &[], 1, &items, &Framing::plain(), &[]);
            }
        }
    }
    // every static-table entry as indexed field and as indexed name, plain and Huffman
    for idx in 1..=61usize {
        let (n, v) = STATIC_TABLE[idx - 1];
        let pre = vec![Item::Indexed { idx: 2, name: b":method".to_vec(), value: b"GET".to_vec() }, Item::Indexed { idx: 4, name: b":path".to_vec(), value: b"/".to_vec() }];
        let mut a = pre.clone(); a.push(Item::Indexed { idx, name: n.as_bytes().to_vec(), value: v.as_bytes().to_vec() });
        push_a(out, true, &[], 1, &a, &Framing::plain(), &[]);
        for hv in [false, true] {
            let mut b = pre.clone(); b.push(Item::LitIdx { mode: Mode::Incremental, idx, name: n.as_bytes().to_vec(), value: b"v1".to_vec(), hv });
            b.push(Item::Indexed { idx: 62, name: n.as_bytes().to_vec(), value: b"v1".to_vec() });
            push_a(out, true, &[], 1, &b, &Framing::plain(), &[]);
        }
    }
    // every octet value through a Huffman-coded value (code table coverage), and long strings
    for b0 in 0..=255u8 {
        let v = vec![b'a', b0, b'z'];
        let items = vec![Item::Indexed { idx: 2, name: b":method".to_vec(), value: b"GET".to_vec() }, Item::Indexed { idx: 4, name: b":path".to_vec(), value: b"/".to_vec() },
                         Item::LitNew { mode: Mode::Without, name: b"x-b".to_vec(), value: v, hn: true, hv: true }];
        push_a(out, true, &[], 1, &items, &Framing::plain(), &[]);
    }
    // dynamic table: eviction and size updates
    for maxsz in [0usize, 32, 64, 70, 100, 4096] {
        let mut t = Table::new();
        let mut items = vec![Item::SizeUpdate(maxsz)]; t.apply(&items[0]);
        let hs = vec![h(":method", "GET"), h(":path", "/"), h("x-aaaa", "1111"), h("x-bbbb", "2222"), h("x-aaaa", "1111"), h("x-cccc", "3"), h("x-bbbb", "2222"), h("x-aaaa", "1111")];
        items.extend(choose_items(r, &hs, &EncOpts { huffman: 30, indexing: 100, use_index: 100, size_updates: 0, avoid15: true }, &mut t));
        push_a(out, true, &[], 1, &items, &Framing::plain(), &[]);
    }
    // blocks larger than one frame (CONTINUATION is mandatory), frames of exactly 16384 octets
    for total in [16384usize, 16385, 20000, 40000] {
        let hs = vec![h(":method", "GET"), h(":path", "/"), (b"x-big".to_vec(), vec![b'q'; total])];
        for huff in [0u64, 100] {
            let mut t = Table::new();
            let items = choose_items(r, &hs, &EncOpts { huffman: huff, indexing: 0, use_index: 100, size_updates: 0, avoid15: true }, &mut t);
            let block = encode_items(&items);
            let mut fr = Framing::plain();
            let mut c = 16384; while c < block.len() { fr.cuts.push(c); c += 16384; }
            push_a(out, true, &[], 1, &items, &fr, &[]);
        }
    }
    // ---- malformed: raw bytes
    let m = tier.scale(600, 8000);
    for _ in 0..m {
        let is_req = r.chance(1, 2);
        let hs = if is_req { request_headers(r, true) } else { response_headers(r, true) };
        let mut t = Table::new();
        let eo = enc_opts(r); let items = choose_items(r, &hs, &eo, &mut t);
        let mut block = encode_items(&items);
        match r.below(8) {
            0 => { if !block.is_empty() { let i = r.below(block.len() as u64) as usize; block[i] ^= 1 << r.below(8); } }
            1 => { let k = r.below(block.len() as u64 + 1) as usize; block.truncate(k); }
            2 => { let k = r.below(20) as usize; block = r.bytes(k); }
            3 => { const TAILS: &[&[u8]] = &[&[0x80], &[0xff, 0xff, 0xff, 0xff, 0xff, 0x01], &[0xbe], &[0x7f, 0x80, 0x80, 0x80, 0x80, 0x00], &[0x00, 0x81, 0xff, 0x00], &[0x00, 0x84, 0xff, 0xff, 0xff, 0xff, 0x00], &[0x3f, 0xe1, 0xff, 0xff, 0xff, 0x0f], &[0x40, 0x7f, 0x00], &[0x00, 0x01]];
                   let tl: &[u8] = *r.pick(TAILS); block.extend_from_slice(tl); }
            4 => block.splice(0..0, vec![0x3f, 0xe1, 0x1f]).for_each(drop),
            _ => {}
        }
        let mut frames = frames_of_block(&block, 1, &random_framing(r, block.len()));
        match r.below(6) {
            0 => { if let Some(f) = frames.first_mut() { f.flags |= F_PADDED; } }                                   // PADDED without room
            1 => { if let Some(f) = frames.first_mut() { f.flags |= F_PRIORITY; f.payload.truncate(3); } }
            2 => { if let Some(f) = frames.last_mut() { f.flags &= !F_END_HEADERS; } }
            3 => { frames.insert(0, Frame::new(T_CONTINUATION, 0, 1, vec![0x82])); }
            4 => { if frames.len() > 1 { frames.swap(0, 1); } }
            _ => {}
        }
        let mut data = frames_wire(is_req && r.chance(9, 10), &frames);
        match r.below(5) { 0 => { let k = r.below(data.len() as u64 + 1) as usize; data.truncate(k); } 1 => { if !data.is_empty() { let i = r.below(data.len() as u64) as usize; data[i] ^= 1 << r.below(8); } } _ => {} }
        out.push(format!("{} {}", if is_req { "Q" } else { "S" }, hex_or_dash(&data)));
    }
}

fn main() { main_cli_post(gen, run, post) }
