//! C16 kind G: `G <cap> <conn>:<t ms>:<frame hex> ...` -- HTTP/2 (and HTTP/1) connections as Ethernet frames
//! through the real per-packet HTTP API (process::process_ipv4/ipv6_packet on a harness-owned flow cache and
//! HttpProcessors, no matcher).  One token per packet joined by ';' (grammar: coq/Extract/EC16.v, tokens:
//! coq/Model/HttpH2.v).
use crate::{ctl_frames, enc_opts, escs, escs_opt, request_headers, response_headers, show_cookies, show_headers};
use hn_h2gen::*;
use hnv_common::pkt::*;
use hnv_common::*;
use huginn_net_http::http::Version;
use ttl_cache::TtlCache;

type Fr = (Vec<u8>, u64);

fn render_h1(hs: &[huginn_net_http::http_common::HttpHeader]) -> String {
    hs.iter().map(|h| format!("{}={}", hex(h.name.as_bytes()), hex(h.value.as_deref().unwrap_or("").as_bytes()))).collect::<Vec<_>>().join(",")
}
fn hver(v: &Version) -> &'static str { match v { Version::V10 => "10", Version::V11 => "11", Version::V20 => "20", Version::V30 => "30", _ => "any" } }

fn token(r: &Result<huginn_net_http::HttpAnalysisResult, huginn_net_http::HuginnNetHttpError>) -> String {
    match r {
        Err(_) => "ERR".to_string(),
        Ok(a) => match (&a.http_request, &a.http_response) {
            (None, None) => "-".to_string(),
            (Some(q), None) => {
                let o = &q.sig;
                if o.matching.version == Version::V20 {
                    format!("Q2 {} {} hdr={} cookies={} referer={} ua={} lang={} sig={}",
                        escs(o.method.as_deref().unwrap_or("").as_bytes()), escs(o.uri.as_deref().unwrap_or("").as_bytes()),
                        show_headers(&o.headers), show_cookies(&o.cookies), escs_opt(&o.referer), escs_opt(&o.user_agent),
                        escs_opt(&o.lang), escs(o.matching.to_string().as_bytes()))
                } else {
                    format!("Q.{}.{}.{}.{}", hex(o.method.as_deref().unwrap_or("").as_bytes()), hex(o.uri.as_deref().unwrap_or("").as_bytes()), hver(&o.matching.version), render_h1(&o.headers))
                }
            }
            (None, Some(p)) => {
                let o = &p.sig;
                if o.matching.version == Version::V20 {
                    format!("R2 {} hdr={} sig={}", o.status_code.unwrap_or(0), show_headers(&o.headers), escs(o.matching.to_string().as_bytes()))
                } else {
                    format!("R.{}.{}.{}", hver(&o.matching.version), o.status_code.unwrap_or(0), render_h1(&o.headers))
                }
            }
            (Some(_), Some(_)) => "BOTH".to_string(),
        },
    }
}

pub fn run_g(line: &str) -> String {
    use huginn_net_http::packet_parser::{parse_packet, IpPacket};
    let toks: Vec<&str> = line.split(' ').collect();
    let cap: usize = toks[1].parse().unwrap();
    let mut fl: TtlCache<huginn_net_http::http_process::FlowKey, huginn_net_http::http_process::TcpFlow> = TtlCache::new(cap);
    let pr = huginn_net_http::http_process::HttpProcessors::new();
    let mut out = Vec::new();
    for t in &toks[2..] {
        let p: Vec<&str> = t.split(':').collect();
        let f = unhex(p[2]);
        let r = match parse_packet(&f) {
            IpPacket::Ipv4(p) => huginn_net_http::process::process_ipv4_packet(&p, &mut fl, &pr, None),
            IpPacket::Ipv6(p) => huginn_net_http::process::process_ipv6_packet(&p, &mut fl, &pr, None),
            IpPacket::None => Ok(huginn_net_http::HttpAnalysisResult { http_request: None, http_response: None }), // lib.rs process_packet
        };
        out.push(token(&r));
    }
    out.join(";")
}

// ------------------------------------------------------------------ generator
/// handshake, client bytes in segments cut at `ccuts`, server bytes in segments cut at `scuts`, FIN
#[allow(clippy::too_many_arguments)]
fn tcp_connection(r: &mut Rng, id: u64, v6: bool, sport: u16, client: &[u8], server: &[u8], nc: usize, ns: usize, t0: u64, swap: bool) -> Vec<Fr> {
    let cport = 20000 + (id % 30000) as u16;
    let c4 = [10, 1, (id / 200) as u8, 1 + (id % 200) as u8]; let s4 = [93, 184, 216, 34 + (id % 3) as u8];
    let mut c6 = [0u8; 16]; c6[0] = 0x20; c6[1] = 1; c6[14] = (id / 200) as u8; c6[15] = 1 + (id % 200) as u8;
    let mut s6 = [0u8; 16]; s6[0] = 0x20; s6[1] = 1; s6[7] = 9; s6[15] = 2 + (id % 3) as u8;
    let isn_c = r.next() as u32 % 0x7000_0000; let isn_s = r.next() as u32 % 0x7000_0000;
    let mk = |from_client: bool, t: Tcp| -> Vec<u8> {
        if v6 { let ip = if from_client { Ip6::new(c6, s6) } else { Ip6::new(s6, c6) }; ether6(&ip, &t) }
        else { let ip = if from_client { Ip4::new(c4, s4) } else { Ip4::new(s4, c4) }; ether4(&ip, &t) }
    };
    let mut now = t0;
    let mut out: Vec<Fr> = Vec::new();
    let mut syn = Tcp::new(cport, sport, SYN); syn.seq = isn_c; syn.options = [opt_mss(1460), opt_sackok(), opt_nop(), opt_ws(7)].concat();
    out.push((mk(true, syn), now)); now += 20 + r.below(50);
    let mut sa = Tcp::new(sport, cport, SYN | ACK); sa.seq = isn_s; sa.ack = isn_c.wrapping_add(1); sa.options = opt_mss(1460);
    out.push((mk(false, sa), now)); now += 20 + r.below(50);
    let mut ack = Tcp::new(cport, sport, ACK); ack.seq = isn_c.wrapping_add(1); ack.ack = isn_s.wrapping_add(1);
    out.push((mk(true, ack), now));
    let cuts = |r: &mut Rng, len: usize, n: usize| -> Vec<usize> {
        let mut c: Vec<usize> = if len > 1 { (0..n.saturating_sub(1)).map(|_| 1 + r.below(len as u64 - 1) as usize).collect() } else { vec![] };
        c.push(0); c.push(len); c.sort(); c.dedup(); c
    };
    let mut csegs: Vec<Fr> = Vec::new();
    for w in cuts(r, client.len(), nc).windows(2) {
        now += 10 + r.below(100);
        let mut d = Tcp::new(cport, sport, PSH | ACK); d.seq = isn_c.wrapping_add(1 + w[0] as u32); d.ack = isn_s.wrapping_add(1);
        d.payload = client[w[0]..w[1]].to_vec();
        csegs.push((mk(true, d), now));
    }
    if swap && csegs.len() >= 2 { let k = r.below(csegs.len() as u64 - 1) as usize; let (a, b) = (csegs[k].1, csegs[k + 1].1); csegs.swap(k, k + 1); csegs[k].1 = a; csegs[k + 1].1 = b; }   // reordered on the wire
    out.extend(csegs);
    if !server.is_empty() {
        for w in cuts(r, server.len(), ns).windows(2) {
            now += 10 + r.below(100);
            let mut e = Tcp::new(sport, cport, PSH | ACK); e.seq = isn_s.wrapping_add(1 + w[0] as u32); e.ack = isn_c.wrapping_add(1 + client.len() as u32);
            e.payload = server[w[0]..w[1]].to_vec();
            out.push((mk(false, e), now));
        }
    }
    now += 10 + r.below(50);
    let mut fin = Tcp::new(cport, sport, FIN | ACK); fin.seq = isn_c.wrapping_add(1 + client.len() as u32); fin.ack = isn_s.wrapping_add(1);
    out.push((mk(true, fin), now));
    out
}

fn h2_client_bytes(r: &mut Rng) -> Vec<u8> {
    let valid = r.chance(5, 6);
    let hs = request_headers(r, valid);
    let mut t = Table::new();
    let eo = enc_opts(r);
    let items = choose_items(r, &hs, &eo, &mut t);
    let block = encode_items(&items);
    let fr = if r.chance(1, 3) { Framing::plain() } else { random_framing(r, block.len()) };
    let sid = *r.pick(&[1u32, 3, 5, 13]);
    let mut frames = vec![settings_frame(&random_settings(r))];
    if r.chance(2, 3) { frames.push(window_update(0, 15663105, false)); }
    frames.extend(ctl_frames(r, sid, true));
    frames.extend(frames_of_block(&block, sid, &fr));
    if r.chance(1, 4) { frames.push(Frame::new(T_DATA, 1, sid, b"body".to_vec())); }
    frames_wire(true, &frames)
}
fn h2_server_bytes(r: &mut Rng) -> Vec<u8> {
    let valid = r.chance(5, 6);
    let hs = response_headers(r, valid);
    let mut t = Table::new();
    let eo = enc_opts(r);
    let items = choose_items(r, &hs, &eo, &mut t);
    let block = encode_items(&items);
    let fr = if r.chance(1, 2) { Framing::plain() } else { random_framing(r, block.len()) };
    let mut frames = vec![settings_frame(&[(3, 100)]), Frame::new(T_SETTINGS, 1, 0, vec![])];
    frames.extend(frames_of_block(&block, 1, &fr));
    frames_wire(false, &frames)
}
fn h1_client_bytes(r: &mut Rng, id: u64) -> Vec<u8> {
    format!("GET /{} HTTP/1.1\r\nHost: example.org\r\nUser-Agent: {}\r\nAccept: */*\r\nCookie: a={}\r\nConnection: keep-alive\r\n\r\n", id, *r.pick(&["curl/7.68.0", "Wget/1.20"]), id).into_bytes()
}
fn h1_server_bytes(r: &mut Rng) -> Vec<u8> {
    format!("HTTP/1.1 200 OK\r\nServer: {}\r\nContent-Type: text/html\r\nContent-Length: 5\r\n\r\nhello", *r.pick(&["Apache/2.4.41 (Ubuntu)", "nginx/1.18.0"])).into_bytes()
}

fn interleave(r: &mut Rng, conns: &[Vec<Fr>]) -> Vec<(usize, Fr)> {
    let mut idx = vec![0usize; conns.len()];
    let mut out = Vec::new();
    loop {
        let live: Vec<usize> = (0..conns.len()).filter(|&i| idx[i] < conns[i].len()).collect();
        if live.is_empty() { break; }
        let i = *r.pick(&live);
        out.push((i, conns[i][idx[i]].clone())); idx[i] += 1;
    }
    out
}

/// the trace of the Coq Examples (EC16 run_line_ex_G, Proofs/HttpH2Instances.v): one HTTP/2 connection start
/// (preface, SETTINGS, PRIORITY-flagged HEADERS with Huffman + indexing) split over two TCP segments, interleaved
/// with an HTTP/1.1 exchange.  Printed by `VERIF_C16_EXAMPLE=1 hn_c16 gen 1 quick`.
pub fn example_line() -> String {
    let mut r = Rng::new(7);
    let hs: Vec<(Vec<u8>, Vec<u8>)> = [(":method", "GET"), (":scheme", "https"), (":path", "/x"), (":authority", "a.example"), ("user-agent", "probe/1.0"), ("accept-language", "de")]
        .iter().map(|(n, v)| (n.as_bytes().to_vec(), v.as_bytes().to_vec())).collect();
    let mut t = Table::new();
    let items = choose_items(&mut r, &hs, &EncOpts { huffman: 100, indexing: 100, use_index: 100, size_updates: 0, avoid15: true }, &mut t);
    let block = encode_items(&items);
    let mut fr = Framing::plain(); fr.prio = Some([0x80, 0, 0, 0, 0xff]);
    let mut frames = vec![settings_frame(&[(3, 100)])];
    frames.extend(frames_of_block(&block, 1, &fr));
    let h2 = frames_wire(true, &frames);
    let c0 = tcp_connection(&mut r, 1, false, 443, &h2, &[], 2, 1, 1_000_000, false);
    let c1 = tcp_connection(&mut r, 2, false, 80, b"GET /i HTTP/1.1\r\nHost: h\r\n\r\n", b"HTTP/1.1 200 OK\r\nServer: s\r\n\r\n", 1, 1, 1_000_005, false);
    // order: both handshakes, first h2 segment, HTTP/1 request, second h2 segment, HTTP/1 response, FINs
    let order = [(0, 0), (1, 0), (0, 1), (1, 1), (0, 2), (1, 2), (0, 3), (1, 3), (0, 4), (1, 4), (0, 5), (1, 5)];
    let mut s = String::from("G 8");
    for (c, i) in order { let (f, t) = if c == 0 { &c0[i] } else { &c1[i] }; s.push_str(&format!(" {}:{}:{}", c, t, hex(f))); }
    s
}

pub fn gen_g(r: &mut Rng, tier: &Tier, out: &mut Vec<String>) {
    if std::env::var("VERIF_C16_EXAMPLE").is_ok() { out.push(example_line()); }
    let n = tier.scale(300, 4000);
    for case in 0..n {
        let nconn = r.range(1, 4) as usize;
        let mut conns = Vec::new();
        for c in 0..nconn {
            let id = (case as u64 * 7 + c as u64 * 13) % 5000;
            let v6 = r.chance(1, 4);
            let (client, server, port) = match r.below(5) {
                0 => (h1_client_bytes(r, id), h1_server_bytes(r), 80u16),
                1 => (h2_client_bytes(r), vec![], 80),
                2 => (h2_client_bytes(r), h1_server_bytes(r), 8080),             // HTTP/1 answer to an HTTP/2 start
                _ => (h2_client_bytes(r), h2_server_bytes(r), *r.pick(&[80u16, 443, 8443])),
            };
            let nc = r.range(1, 5) as usize; let ns = r.range(1, 3) as usize;
            let t0 = 1_000_000 + r.below(1000); let swap = r.chance(1, 12);
            conns.push(tcp_connection(r, id, v6, port, &client, &server, nc, ns, t0, swap));
        }
        let tr = interleave(r, &conns);
        let cap = match r.below(6) { 0 => r.range(1, 3) as usize, 1 => nconn, _ => 1000 };
        let mut s = format!("G {}", cap);
        for (ci, (f, t)) in &tr { s.push_str(&format!(" {}:{}:{}", ci, t, hex(f))); }
        out.push(s);
    }
}
