//! C14 harness: builds a FilterConfig through the public builder API of each crate's copy of
//! filter.rs from a case line and asks should_process.  Line grammar: see coq/Extract/EC14.v.
use hnv_common::*;
use std::net::{IpAddr, Ipv4Addr, Ipv6Addr};

fn parse_addr(t: &str) -> IpAddr {
    let (v, h) = t.split_once(':').unwrap();
    let b = unhex(h);
    match v {
        "4" => IpAddr::V4(Ipv4Addr::new(b[0], b[1], b[2], b[3])),
        _ => { let mut a = [0u8; 16]; a.copy_from_slice(&b); IpAddr::V6(Ipv6Addr::from(a)) }
    }
}

macro_rules! eval_in {
    ($krate:ident, $line:expr) => {{
        use $krate::{FilterConfig, FilterMode, IpFilter, PortFilter, SubnetFilter};
        let toks: Vec<&str> = $line.split_whitespace().collect();
        let mut cfg = FilterConfig::new().mode(if toks[0] == "D" { FilterMode::Deny } else { FilterMode::Allow });
        let mut pf: Option<PortFilter> = None;
        let mut ipf: Option<IpFilter> = None;
        let mut snf: Option<SubnetFilter> = None;
        let mut sec = ' ';
        let mut i = 1;
        while toks[i] != "E" {
            let t = toks[i];
            i += 1;
            match t {
                "P" => { sec = 'P'; pf = Some(PortFilter::new()); continue; }
                "I" => { sec = 'I'; ipf = Some(IpFilter::new()); continue; }
                "N" => { sec = 'N'; snf = Some(SubnetFilter::new()); continue; }
                _ => {}
            }
            match sec {
                'P' => {
                    let f = pf.take().unwrap();
                    let parts: Vec<&str> = t.split(':').collect();
                    let list = |s: &str| -> Vec<u16> { if s.is_empty() { vec![] } else { s.split(',').map(|x| x.parse().unwrap()).collect() } };
                    pf = Some(match parts[0] {
                        "any" => f.any_port(),
                        "d" => f.destination(parts[1].parse().unwrap()),
                        "s" => f.source(parts[1].parse().unwrap()),
                        "dl" => f.destination_list(list(parts[1])),
                        "sl" => f.source_list(list(parts[1])),
                        "dr" => f.destination_range(parts[1].parse().unwrap()..parts[2].parse().unwrap()),
                        "sr" => f.source_range(parts[1].parse().unwrap()..parts[2].parse().unwrap()),
                        _ => panic!("bad pop"),
                    });
                }
                'I' => {
                    let f = ipf.take().unwrap();
                    ipf = Some(match t {
                        "so" => f.source_only(),
                        "do" => f.destination_only(),
                        _ => f.allow(&parse_addr(&t[2..]).to_string()).unwrap(),
                    });
                }
                'N' => {
                    let f = snf.take().unwrap();
                    snf = Some(match t {
                        "so" => f.source_only(),
                        "do" => f.destination_only(),
                        _ => { let (a, p) = t[2..].split_once('/').unwrap(); f.allow(&format!("{}/{}", parse_addr(a), p)).unwrap() }
                    });
                }
                _ => panic!("op outside section"),
            }
        }
        if let Some(f) = pf { cfg = cfg.with_port_filter(f); }
        if let Some(f) = ipf { cfg = cfg.with_ip_filter(f); }
        if let Some(f) = snf { cfg = cfg.with_subnet_filter(f); }
        let src = parse_addr(toks[i + 1]);
        let dst = parse_addr(toks[i + 2]);
        let sp: u16 = toks[i + 3].parse().unwrap();
        let dp: u16 = toks[i + 4].parse().unwrap();
        cfg.should_process(&src, &dst, sp, dp)
    }};
}

fn run(line: &str) -> String {
    let a = eval_in!(huginn_net_tcp, line);
    let b = eval_in!(huginn_net_http, line);
    let c = eval_in!(huginn_net_tls, line);
    if a == b && b == c { (a as u8).to_string() } else { format!("tcp={} http={} tls={}", a as u8, b as u8, c as u8) }
}

const PORTS: &[u16] = &[0, 1, 2, 79, 80, 81, 442, 443, 444, 1023, 1024, 1025, 7999, 8000, 8001, 8999, 9000, 9001, 65534, 65535];

fn gen_port(r: &mut Rng) -> u16 { if r.chance(3, 4) { *r.pick(PORTS) } else { r.below(65536) as u16 } }

fn addr4(r: &mut Rng) -> [u8; 4] {
    const A: &[[u8; 4]] = &[[0, 0, 0, 0], [10, 0, 0, 1], [10, 0, 0, 2], [10, 255, 255, 255], [11, 0, 0, 0], [9, 255, 255, 255],
        [192, 168, 1, 1], [192, 168, 1, 255], [192, 168, 2, 0], [192, 168, 0, 255], [255, 255, 255, 255], [127, 0, 0, 1], [128, 0, 0, 0]];
    if r.chance(3, 4) { *r.pick(A) } else { let b = r.bytes(4); [b[0], b[1], b[2], b[3]] }
}
fn addr6(r: &mut Rng) -> Vec<u8> {
    let mut a = vec![0u8; 16];
    match r.below(5) {
        0 => { a[0] = 0x20; a[1] = 0x01; a[2] = 0x0d; a[3] = 0xb8; a[15] = r.below(3) as u8; }
        1 => { a[0] = 0x20; a[1] = 0x01; a[2] = 0x0d; a[3] = 0xb9; }
        2 => { a[0] = 0xfe; a[1] = 0x80; a[8] = r.below(256) as u8; a[15] = 1; }
        3 => { for x in a.iter_mut() { *x = 0xff; } }
        _ => { a = r.bytes(16); }
    }
    a
}
fn addr_tok(r: &mut Rng, v6: bool) -> String { if v6 { format!("6:{}", hex(&addr6(r))) } else { format!("4:{}", hex(&addr4(r))) } }

fn gen_cfg(r: &mut Rng, v6: bool) -> String {
    let mut s = String::from(if r.chance(1, 2) { "A" } else { "D" });
    if r.chance(2, 3) {
        s.push_str(" P");
        for _ in 0..r.below(4) {
            let op = match r.below(8) {
                0 => format!("d:{}", gen_port(r)),
                1 => format!("s:{}", gen_port(r)),
                2 | 3 => { let (a, b) = (gen_port(r), gen_port(r)); format!("{}:{}:{}", if r.chance(1, 2) { "dr" } else { "sr" }, a, b) }
                4 => { let n = r.below(3); let l: Vec<String> = (0..n).map(|_| gen_port(r).to_string()).collect(); format!("dl:{}", l.join(",")) }
                5 => { let n = r.below(3); let l: Vec<String> = (0..n).map(|_| gen_port(r).to_string()).collect(); format!("sl:{}", l.join(",")) }
                6 => "any".to_string(),
                _ => { let a = gen_port(r); format!("dr:{}:{}", a, a.saturating_add(r.below(3) as u16)) }
            };
            s.push(' '); s.push_str(&op);
        }
    }
    if r.chance(1, 2) {
        s.push_str(" I");
        for _ in 0..r.below(4) {
            let op = match r.below(5) { 0 => "so".to_string(), 1 => "do".to_string(), _ => { let six = if r.chance(1, 5) { !v6 } else { v6 }; format!("a:{}", addr_tok(r, six)) } };
            s.push(' '); s.push_str(&op);
        }
    }
    if r.chance(1, 2) {
        s.push_str(" N");
        for _ in 0..r.below(4) {
            let op = match r.below(5) {
                0 => "so".to_string(), 1 => "do".to_string(),
                _ => { let six = if r.chance(1, 5) { !v6 } else { v6 };
                       let w = if six { 128 } else { 32 };
                       let p = match r.below(5) { 0 => 0, 1 => w, 2 => w - 1, 3 => 1, _ => r.below(w + 1) };
                       format!("n:{}/{}", addr_tok(r, six), p) }
            };
            s.push(' '); s.push_str(&op);
        }
    }
    s
}

fn gen(r: &mut Rng, tier: &Tier, out: &mut Vec<String>) {
    let ncfg = tier.scale(1500, 30000);
    for _ in 0..ncfg {
        let v6 = r.chance(1, 4);
        let cfg = gen_cfg(r, v6);
        for _ in 0..4 {
            let mixed = r.chance(1, 10);
            out.push(format!("{} E {} {} {} {}", cfg, addr_tok(r, v6), addr_tok(r, if mixed { !v6 } else { v6 }), gen_port(r), gen_port(r)));
        }
    }
    // exhaustive-small: every single-range configuration over a small port alphabet, both sides, all three modes
    let small: &[u16] = &[0, 1, 2, 65534, 65535];
    for &a in small { for &b in small { for side in ["dr", "sr"] { for any in ["", " any"] { for m in ["A", "D"] {
        for &sp in small { for &dp in small {
            out.push(format!("{} P {}:{}:{}{} E 4:0a000001 4:0a000002 {} {}", m, side, a, b, any, sp, dp));
        }}
    }}}}}
    // overlapping / nested CIDR blocks in both listing orders, address inside the wide block only
    for (p1, p2) in [(24u32, 8u32), (8, 24), (32, 0), (0, 32), (16, 17), (17, 16), (31, 30), (8, 8)] {
        for base in [0x0A00_0000u32, 0x0000_0000, 0xC0A8_0100] {
            for x in [base, base ^ 1, base ^ 0x0001_0203, base ^ 0x0100_0000, base ^ 0x8000_0000, base ^ 0x0000_0100] {
                for side in ["", " so", " do"] { for m in ["A", "D"] {
                    out.push(format!("{} N n:4:{:08x}/{} n:4:{:08x}/{}{} E 4:{:08x} 4:{:08x} 1 2", m, base, p1, base, p2, side, x, x ^ 0x4000_0000));
                }}
            }
        }
    }
    for (p1, p2) in [(64u32, 32u32), (32, 64), (128, 0), (0, 128), (127, 126), (48, 48)] {
        let base: u128 = 0x2001_0db8_0000_0000_0000_0000_0000_0000;
        for x in [base, base ^ 1, base ^ (1u128 << 70), base ^ (1u128 << 100), base ^ (1u128 << 127)] {
            for m in ["A", "D"] {
                out.push(format!("{} N n:6:{:032x}/{} n:6:{:032x}/{} E 6:{:032x} 6:{:032x} 1 2", m, base, p1, base, p2, x, x ^ (1u128 << 120)));
            }
        }
    }
    // every prefix length against addresses differing in exactly one bit
    for p in 0..=32u32 { for bit in [0u32, 1, 7, 8, 15, 16, 23, 24, 30, 31] {
        let net: u32 = 0xC0A8_0101; let x = net ^ (1u32 << (31 - bit));
        out.push(format!("A N n:4:{:08x}/{} E 4:{:08x} 4:00000000 1 2", net, p, x));
    }}
    for p in 0..=128u32 { for bit in [0u32, 1, 15, 16, 63, 64, 65, 126, 127] {
        let net: u128 = 0x2001_0db8_0000_0000_0000_0000_0000_0001; let x = net ^ (1u128 << (127 - bit));
        out.push(format!("A N n:6:{:032x}/{} do E 6:{:032x} 6:{:032x} 1 2", net, p, 0u128, x));
    }}
}

fn main() { main_cli(gen, run) }
