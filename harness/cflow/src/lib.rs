//! Shared by the stateful-property harnesses (C07, C10, ...): generated connections (frames with
//! arrival times), and per-packet drivers of the four real analyzers with canonical result tokens.
use hnv_common::pkt::*;
use hnv_common::*;
use huginn_net_db::Database;
use ttl_cache::TtlCache;

pub type Frame = (Vec<u8>, u64); // bytes, arrival time in ms

pub fn fnv(s: &str) -> String {
    let mut h: u64 = 0xcbf29ce484222325;
    for b in s.as_bytes() { h ^= *b as u64; h = h.wrapping_mul(0x100000001b3); }
    format!("{:016x}", h)
}
/// timing metadata never takes part in a comparison
pub fn scrub(s: &str) -> String {
    let mut out = String::new();
    let mut rest = s;
    while let Some(i) = rest.find("parsing_time_ns: ") {
        out.push_str(&rest[..i]);
        out.push_str("parsing_time_ns: _");
        let tail = &rest[i + "parsing_time_ns: ".len()..];
        let j = tail.find(|c: char| !c.is_ascii_digit()).unwrap_or(tail.len());
        rest = &tail[j..];
    }
    out.push_str(rest);
    out
}

#[derive(Clone, Copy, PartialEq, Eq, Debug)]
pub enum Kind { Tcp, Tls, Http, Unified }
impl Kind {
    pub fn from(c: &str) -> Kind { match c { "t" => Kind::Tcp, "l" => Kind::Tls, "h" => Kind::Http, _ => Kind::Unified } }
    pub fn tag(&self) -> &'static str { match self { Kind::Tcp => "t", Kind::Tls => "l", Kind::Http => "h", Kind::Unified => "u" } }
}

pub fn set_clock(t: u64) { huginn_net_tcp::uptime::verif_hooks::set_thread_clock_script(vec![t; 16]); }
pub fn clear_clock() { huginn_net_tcp::uptime::verif_hooks::clear_thread_clock(); }

/// One sequential analyzer instance driven packet by packet through the public per-packet API.
pub enum Seq<'a> {
    Tcp(TtlCache<huginn_net_tcp::ConnectionKey, huginn_net_tcp::TcpTimestamp>, huginn_net_tcp::SignatureMatcher<'a>),
    Tls(TtlCache<huginn_net_tls::FlowKey, huginn_net_tls::tls_client_hello_reader::TlsClientHelloReader>),
    Http(TtlCache<huginn_net_http::http_process::FlowKey, huginn_net_http::http_process::TcpFlow>, huginn_net_http::http_process::HttpProcessors, huginn_net_http::SignatureMatcher<'a>),
    Unified(Box<huginn_net::HuginnNet<'a>>),
}
impl<'a> Seq<'a> {
    pub fn new(kind: Kind, db: &'a Database, cap: usize) -> Seq<'a> {
        match kind {
            Kind::Tcp => Seq::Tcp(TtlCache::new(cap), huginn_net_tcp::SignatureMatcher::new(db)),
            Kind::Tls => Seq::Tls(TtlCache::new(cap)),
            Kind::Http => Seq::Http(TtlCache::new(cap), huginn_net_http::http_process::HttpProcessors::new(), huginn_net_http::SignatureMatcher::new(db)),
            Kind::Unified => Seq::Unified(Box::new(huginn_net::HuginnNet::new(Some(db), cap, None).expect("unified"))),
        }
    }
    /// canonical text of everything reported for this packet ("" when nothing)
    pub fn packet(&mut self, frame: &[u8], t: u64) -> String {
        set_clock(t);
        let s = match self {
            Seq::Tcp(tr, m) => {
                use huginn_net_tcp::packet_parser::{parse_packet, IpPacket};
                let r = match parse_packet(frame) {
                    IpPacket::Ipv4(p) => huginn_net_tcp::process::process_ipv4_packet(&p, tr, Some(m)).ok(),
                    IpPacket::Ipv6(p) => huginn_net_tcp::process::process_ipv6_packet(&p, tr, Some(m)).ok(),
                    IpPacket::None => None,
                };
                r.map(|x| tcp_text(&x)).unwrap_or_default()
            }
            Seq::Tls(fl) => {
                use huginn_net_tls::packet_parser::{parse_packet, IpPacket};
                let r = match parse_packet(frame) {
                    IpPacket::Ipv4(p) => huginn_net_tls::process::process_ipv4_packet(&p, fl).ok().flatten(),
                    IpPacket::Ipv6(p) => huginn_net_tls::process::process_ipv6_packet(&p, fl).ok().flatten(),
                    IpPacket::None => None,
                };
                r.map(|x| tls_text(&x)).unwrap_or_default()
            }
            Seq::Http(fl, pr, m) => {
                use huginn_net_http::packet_parser::{parse_packet, IpPacket};
                let r = match parse_packet(frame) {
                    IpPacket::Ipv4(p) => huginn_net_http::process::process_ipv4_packet(&p, fl, pr, Some(m)).ok(),
                    IpPacket::Ipv6(p) => huginn_net_http::process::process_ipv6_packet(&p, fl, pr, Some(m)).ok(),
                    IpPacket::None => None,
                };
                r.map(|x| http_text(&x)).unwrap_or_default()
            }
            Seq::Unified(a) => {
                let r = a.analyze_tcp(frame);
                let mut s = String::new();
                let t = huginn_net_tcp::TcpAnalysisResult { syn: r.tcp_syn, syn_ack: r.tcp_syn_ack, mtu: r.tcp_mtu, client_uptime: r.tcp_client_uptime, server_uptime: r.tcp_server_uptime };
                s.push_str(&tcp_text(&t));
                let h = huginn_net_http::HttpAnalysisResult { http_request: r.http_request, http_response: r.http_response };
                s.push_str(&http_text(&h));
                if let Some(l) = r.tls_client { s.push_str(&tls_text(&l)); }
                s
            }
        };
        clear_clock();
        s
    }
}
pub fn tcp_text(x: &huginn_net_tcp::TcpAnalysisResult) -> String {
    let mut s = String::new();
    if let Some(v) = &x.syn { s.push_str(&format!("SYN {:?};", v)); }
    if let Some(v) = &x.syn_ack { s.push_str(&format!("SYNACK {:?};", v)); }
    if let Some(v) = &x.mtu { s.push_str(&format!("MTU {:?};", v)); }
    if let Some(v) = &x.client_uptime { s.push_str(&format!("CUP {:?};", v)); }
    if let Some(v) = &x.server_uptime { s.push_str(&format!("SUP {:?};", v)); }
    s
}
pub fn http_text(x: &huginn_net_http::HttpAnalysisResult) -> String {
    let mut s = String::new();
    if let Some(v) = &x.http_request { s.push_str(&scrub(&format!("REQ {:?};", v))); }
    if let Some(v) = &x.http_response { s.push_str(&scrub(&format!("RESP {:?};", v))); }
    s
}
pub fn tls_text(x: &huginn_net_tls::output::TlsClientOutput) -> String {
    format!("TLS {:?}>{:?} {:?};", x.source, x.destination, x.sig)
}
pub fn tok(text: &str) -> String { if text.is_empty() { "-".to_string() } else { fnv(text) } }

// ---------------- connection generators ----------------
pub fn client_hello(r: &mut Rng) -> Vec<u8> {
    let mut ext = Vec::new();
    let hosts: [&[u8]; 3] = [b"example.org", b"a.b.c.example.net", b"x.io"];
    let host = *r.pick(&hosts);
    let l = host.len() as u16;
    let mut sni = vec![0u8, 0];
    sni.extend_from_slice(&(l + 5).to_be_bytes()); sni.extend_from_slice(&(l + 3).to_be_bytes()); sni.push(0); sni.extend_from_slice(&l.to_be_bytes()); sni.extend_from_slice(host);
    ext.extend_from_slice(&sni);
    ext.extend_from_slice(&[0, 16, 0, 5, 0, 3, 2, b'h', b'2']);
    ext.extend_from_slice(&[0, 10, 0, 4, 0, 2, 0, 29]);
    ext.extend_from_slice(&[0, 13, 0, 4, 0, 2, 4, 3]);
    if r.chance(1, 2) { ext.extend_from_slice(&[0, 43, 0, 3, 2, 3, 4]); }
    let pad = r.below(300) as usize; // padding extension to vary the record size
    ext.extend_from_slice(&[0, 21]); ext.extend_from_slice(&(pad as u16).to_be_bytes()); ext.extend(std::iter::repeat(0u8).take(pad));
    let mut body = vec![3, 3]; body.extend_from_slice(&r.bytes(32)); body.push(0);
    let n = 3 + r.below(12);
    let ciphers: Vec<u16> = (0..n).map(|_| *r.pick(&[0x1301u16, 0x1302, 0x1303, 0xc02b, 0xc02f, 0x009c, 0xc013, 0x0035, 0x2a2a])).collect();
    body.extend_from_slice(&((ciphers.len() * 2) as u16).to_be_bytes());
    for c in &ciphers { body.extend_from_slice(&c.to_be_bytes()); }
    body.extend_from_slice(&[1, 0]);
    body.extend_from_slice(&(ext.len() as u16).to_be_bytes()); body.extend_from_slice(&ext);
    let mut hs = vec![1, 0]; hs.extend_from_slice(&(body.len() as u16).to_be_bytes()); hs.extend_from_slice(&body);
    let mut rec = vec![0x16, 3, 1]; rec.extend_from_slice(&(hs.len() as u16).to_be_bytes()); rec.extend_from_slice(&hs);
    rec
}

fn h2_frame(ty: u8, flags: u8, stream: u32, payload: &[u8]) -> Vec<u8> {
    let l = payload.len() as u32;
    let mut f = vec![(l >> 16) as u8, (l >> 8) as u8, l as u8, ty, flags];
    f.extend_from_slice(&stream.to_be_bytes()); f.extend_from_slice(payload); f
}
/// HTTP/2 connection start; `variant` picks plain / crafted HPACK blocks (size update, incremental
/// indexing followed by a dynamic-table reference)
pub fn h2_request(variant: u64) -> Vec<u8> {
    let mut b = b"PRI * HTTP/2.0\r\n\r\nSM\r\n\r\n".to_vec();
    b.extend_from_slice(&h2_frame(4, 0, 0, &[0, 3, 0, 0, 0, 100]));
    let mut block: Vec<u8> = Vec::new();
    if variant == 4 {                                          // size update to 0, then an out-of-range index: the decoder fails mid-block
        b.extend_from_slice(&h2_frame(1, 0x5, 1, &[0x20, 0x82, 0x84, 0xbe]));
        return b;
    }
    if variant == 1 { block.push(0x20); }                     // dynamic table size update to 0
    if variant == 3 { block.extend_from_slice(&[0x3f, 0xe1, 0x1f]); } // size update to 4096
    block.extend_from_slice(&[0x82, 0x86, 0x84]);             // :method GET, :scheme http, :path /
    block.extend_from_slice(&[0x41, 0x0b]); block.extend_from_slice(b"example.org"); // :authority, incremental indexing
    if variant == 2 || variant == 3 {
        block.extend_from_slice(&[0x40, 0x03]); block.extend_from_slice(b"x-a"); block.extend_from_slice(&[0x01, b'1']);
        block.push(0xbe);                                      // index 62 = newest dynamic entry
    }
    block.extend_from_slice(&[0x7a, 0x04]); block.extend_from_slice(b"h2/1");           // user-agent literal with indexing (static 58)
    b.extend_from_slice(&h2_frame(1, 0x5, 1, &block));
    b
}

/// `tfo`: TCP Fast Open (RFC 7413) -- the SYN itself carries ALL the client bytes (for kind 1 a complete single-segment
/// ClientHello), no later data segments.  `bare`: no TCP options on any segment of the connection (an IPv4 SYN / ACK /
/// FIN without payload is then exactly link header + 40 bytes: 54 on Ethernet).  Neither flag changes the random draws
/// of a connection that does not set it.  `macs`: (client MAC, server MAC) written into the Ethernet header by direction
/// (default: the constant addresses of hnv_common::pkt::ether).
pub struct ConnSpec { pub kind: u64, pub v6: bool, pub id: u64, pub cid: Option<u64>, pub cport: Option<u16>, pub sid: Option<u64>, pub same_host: bool, pub client_ip_opts: bool, pub force_segs: Option<usize>, pub tfo: bool, pub bare: bool, pub macs: Option<([u8; 6], [u8; 6])> }
impl ConnSpec {
    pub fn new(kind: u64, v6: bool, id: u64) -> ConnSpec { ConnSpec { kind, v6, id, cid: None, cport: None, sid: None, same_host: false, client_ip_opts: false, force_segs: None, tfo: false, bare: false, macs: None } }
}

/// frames of one connection, client address derived from `id` so identities are pairwise distinct
pub fn connection(r: &mut Rng, spec: &ConnSpec, t0: u64) -> Vec<Frame> {
    let id = spec.id;
    let cport = spec.cport.unwrap_or(20000 + (id % 30000) as u16);
    let cid = spec.cid.unwrap_or(id);
    let sid = spec.sid.unwrap_or(id % 3);
    let sport: u16 = match spec.kind { 0 | 3 => 80, 1 => 443, _ => 22 };
    let c4 = [10, 1, (cid / 200) as u8, 1 + (cid % 200) as u8]; let s4 = [93, 184, 216, 34 + (sid % 200) as u8];
    let mut c6 = [0u8; 16]; c6[0] = 0x20; c6[1] = 1; c6[14] = (cid / 200) as u8; c6[15] = 1 + (cid % 200) as u8;
    let mut s6 = [0u8; 16]; s6[0] = 0x20; s6[1] = 1; s6[7] = 9; s6[15] = 2 + (sid % 200) as u8;
    // client and server on one address (loopback style: a host calling its own service)
    let (s4, s6) = if spec.same_host { (c4, c6) } else { (s4, s6) };
    let isn_c = r.next() as u32 % 0x7000_0000; let isn_s = r.next() as u32 % 0x7000_0000;
    let hz_c = *r.pick(&[100u64, 250, 1000]); let hz_s = *r.pick(&[100u64, 1000]);
    let ts_c0 = 100_000 + r.below(1_000_000); let ts_s0 = 5_000_000 + r.below(1_000_000);
    let v6 = spec.v6;
    let client_ip_opts = spec.client_ip_opts;
    let macs = spec.macs;
    let mk = |from_client: bool, t: Tcp, ttl: u8| -> Vec<u8> {
        let mut f = if v6 { let mut ip = if from_client { Ip6::new(c6, s6) } else { Ip6::new(s6, c6) }; ip.hop = ttl; ether6(&ip, &t) }
        else {
            let mut ip = if from_client { Ip4::new(c4, s4) } else { Ip4::new(s4, c4) }; ip.ttl = ttl;
            // IPv4 options (record route) in the client direction only: IHL 7 one way, 5 the other
            if from_client && client_ip_opts { ip.options = vec![7, 7, 4, 0, 0, 0, 0]; }
            ether4(&ip, &t)
        };
        if let Some((cm, sm)) = macs {
            let (dst, src) = if from_client { (sm, cm) } else { (cm, sm) };
            f[0..6].copy_from_slice(&dst); f[6..12].copy_from_slice(&src);
        }
        f
    };
    let mut now = t0;
    let tsc = |now: u64| (ts_c0 + (now - t0) * hz_c / 1000) as u32;
    let tss = |now: u64| (ts_s0 + (now - t0) * hz_s / 1000) as u32;
    let mut out: Vec<Frame> = Vec::new();
    let mut syn = Tcp::new(cport, sport, SYN); syn.seq = isn_c; syn.window = *r.pick(&[65535u16, 29200, 64240, 8192]);
    syn.options = [opt_mss(*r.pick(&[1460u16, 1400])), opt_sackok(), opt_ts(tsc(now), 0), opt_nop(), opt_ws(*r.pick(&[7u8, 8]))].concat();
    let bare = spec.bare;
    if bare { syn.options = vec![]; }
    // Fast Open: the client bytes travel in the SYN and occupy sequence space from isn_c + 1
    let tfo_bytes: Option<Vec<u8>> = if spec.tfo { Some(client_data(r, spec.kind, id)) } else { None };
    let tfo_len = tfo_bytes.as_ref().map(|b| b.len() as u32).unwrap_or(0);
    if let Some(b) = &tfo_bytes { syn.payload = b.clone(); }
    out.push((mk(true, syn, *r.pick(&[64u8, 128, 57])), now));
    now += 40 + r.below(100);
    let mut sa = Tcp::new(sport, cport, SYN | ACK); sa.seq = isn_s; sa.ack = isn_c.wrapping_add(1 + tfo_len); sa.window = 28960;
    sa.options = [opt_mss(1460), opt_sackok(), opt_ts(tss(now), tsc(t0)), opt_nop(), opt_ws(7)].concat();
    if bare { sa.options = vec![]; }
    out.push((mk(false, sa, 52), now));
    now += 40 + r.below(200);
    let mut ack = Tcp::new(cport, sport, ACK); ack.seq = isn_c.wrapping_add(1 + tfo_len); ack.ack = isn_s.wrapping_add(1);
    ack.options = [opt_nop(), opt_nop(), opt_ts(tsc(now), tss(now))].concat();
    if bare { ack.options = vec![]; }
    out.push((mk(true, ack, 64), now));
    let client_bytes: Vec<u8> = match tfo_bytes { Some(b) => b, None => client_data(r, spec.kind, id) };
    // split the client bytes into 1..4 in-order segments (Fast Open: they were all in the SYN, no data segment follows)
    let nseg = if spec.tfo { 1 } else { spec.force_segs.unwrap_or(1 + r.below(4) as usize) };
    let mut cuts: Vec<usize> = if spec.tfo { vec![] } else { (0..nseg - 1).map(|_| 1 + r.below(client_bytes.len() as u64 - 1) as usize).collect() };
    if !spec.tfo { cuts.push(0); cuts.push(client_bytes.len()); } cuts.sort(); cuts.dedup();
    // a ClientHello's first segment holds at least the 5-byte record header
    if spec.kind == 1 { cuts.retain(|&c| c == 0 || c >= 5); }
    for w in cuts.windows(2) {
        now += 30 + r.below(300);
        let mut d = Tcp::new(cport, sport, PSH | ACK); d.seq = isn_c.wrapping_add(1 + w[0] as u32); d.ack = isn_s.wrapping_add(1);
        d.payload = client_bytes[w[0]..w[1]].to_vec();
        d.options = [opt_nop(), opt_nop(), opt_ts(tsc(now), tss(now))].concat();
        if bare { d.options = vec![]; }
        out.push((mk(true, d, 64), now));
    }
    if spec.kind == 0 {
        now += 50 + r.below(200);
        let resp = format!("HTTP/1.1 200 OK\r\nServer: {}\r\nContent-Type: text/html\r\nContent-Length: 5\r\n\r\nhello", *r.pick(&["Apache/2.4.41 (Ubuntu)", "nginx/1.18.0"]));
        let mut e = Tcp::new(sport, cport, PSH | ACK); e.seq = isn_s.wrapping_add(1); e.ack = isn_c.wrapping_add(1 + client_bytes.len() as u32); e.payload = resp.into_bytes();
        e.options = [opt_nop(), opt_nop(), opt_ts(tss(now), tsc(now))].concat();
        if bare { e.options = vec![]; }
        out.push((mk(false, e, 52), now));
    }
    now += 30 + r.below(100);
    let mut fin = Tcp::new(cport, sport, FIN | ACK); fin.seq = isn_c.wrapping_add(1 + client_bytes.len() as u32); fin.ack = isn_s.wrapping_add(1);
    fin.options = [opt_nop(), opt_nop(), opt_ts(tsc(now), tss(now))].concat();
    if bare { fin.options = vec![]; }
    out.push((mk(true, fin, 64), now));
    out
}

/// a (client, server) pair of MAC addresses whose first octets include values that look like an IP version nibble
/// (0x45..0x4f, 0x6X), the BSD-loopback signature 1e 00, locally administered, zero and broadcast-like prefixes
pub fn pick_macs(r: &mut Rng) -> ([u8; 6], [u8; 6]) {
    const FIRST: [u8; 11] = [0x45, 0x48, 0x4c, 0x4f, 0x60, 0x64, 0x6c, 0x1e, 0x02, 0x00, 0xff];
    let mut one = |r: &mut Rng| { let a = *r.pick(&FIRST); let b = r.bytes(5); [a, if a == 0x1e { 0 } else { b[0] }, b[1], b[2], b[3], b[4]] };
    let c = one(r); let s = one(r); (c, s)
}

/// what the client sends: an HTTP/1.1 request, a ClientHello record, an HTTP/2 connection start, or opaque bytes
fn client_data(r: &mut Rng, kind: u64, id: u64) -> Vec<u8> {
    match kind {
        0 => format!("GET /{} HTTP/1.1\r\nHost: example.org\r\nUser-Agent: {}\r\nAccept: */*\r\nAccept-Language: en-US,en;q=0.8\r\nCookie: a={}; b=2\r\nConnection: keep-alive\r\n\r\n", id,
                     *r.pick(&["curl/7.68.0", "Mozilla/5.0 (X11; Linux x86_64) AppleWebKit/537.36 (KHTML, like Gecko) Chrome/120.0 Safari/537.36", "Wget/1.20"]), id).into_bytes(),
        1 => client_hello(r),
        3 => h2_request(id % 5),
        _ => r.bytes(40),
    }
}

/// order-preserving random interleaving; returns (connection index, frame) pairs
pub fn interleave(r: &mut Rng, conns: &[Vec<Frame>], round_robin: bool) -> Vec<(usize, Frame)> {
    let mut idx = vec![0usize; conns.len()];
    let mut out = Vec::new();
    let mut rr = 0usize;
    loop {
        let live: Vec<usize> = (0..conns.len()).filter(|&i| idx[i] < conns[i].len()).collect();
        if live.is_empty() { break; }
        let i = if round_robin { rr += 1; live[rr % live.len()] } else { *r.pick(&live) };
        out.push((i, conns[i][idx[i]].clone())); idx[i] += 1;
    }
    out
}
