//! C12 harness: component distances and quality tables through the public traits of huginn-net-db
//! (`DatabaseSignature::calculate_distance` / `get_quality_score`).  Line grammar: coq/Extract/EC12.v.
use hnv_common::*;
use huginn_net_db::db_matching_trait::DatabaseSignature;
use huginn_net_db::http::{self, Header, Version};
use huginn_net_db::observable_signals::{HttpRequestObservation, HttpResponseObservation, TcpObservation};
use huginn_net_db::tcp::{self, IpVersion, PayloadSize, Ttl, WindowSize};
use huginn_net_db::Database;
mod sigtext;
use sigtext::*;

fn show(d: Option<u32>, q: impl Fn(u32) -> f32) -> String { match d { Some(d) => format!("{} {}", d, p_quality(q(d))), None => "NONE".into() } }

fn run(line: &str) -> String {
    let t: Vec<&str> = line.split_whitespace().collect();
    match t[0] {
        "T" => { let s = r_tcp(t[2]); let o = to_obs(&r_tcp(t[3])); show(s.calculate_distance(&o), |d| DatabaseSignature::<TcpObservation>::get_quality_score(&s, d)) }
        "H" => { let s = r_http(t[2]); let o = to_req(&r_http(t[3])); show(s.calculate_distance(&o), |d| DatabaseSignature::<HttpRequestObservation>::get_quality_score(&s, d)) }
        "R" => { let s = r_http(t[2]); let o = to_resp(&r_http(t[3])); show(s.calculate_distance(&o), |d| DatabaseSignature::<HttpResponseObservation>::get_quality_score(&s, d)) }
        "Q" => {
            let d: u32 = t[2].parse().unwrap();
            match t[1] {
                "t" => { let s = r_tcp("*:v64:0:*:*:*:-:-:*"); p_quality(DatabaseSignature::<TcpObservation>::get_quality_score(&s, d)) }
                "h" => { let s = r_http("*:-:-:-");
                         let a = DatabaseSignature::<HttpRequestObservation>::get_quality_score(&s, d);
                         let b = DatabaseSignature::<HttpResponseObservation>::get_quality_score(&s, d);
                         if a == b { p_quality(a) } else { format!("req={} resp={}", a, b) } }
                _ => panic!("table"),
            }
        }
        "W" => { let s = r_http(t[1]);
                 let fresh = |v: &Vec<Header>| (0..v.len()).all(|i| !v[i].optional || (i + 1..v.len()).all(|j| v[i].name != v[j].name));
                 ((fresh(&s.horder) && fresh(&s.habsent)) as u8).to_string() }
        _ => panic!("kind"),
    }
}

fn base_tcp() -> tcp::Signature { r_tcp("4:v64:0:1460:s4:7:m,k,t,n,w:0,1:0") }
fn push_t(out: &mut Vec<String>, s: &tcp::Signature, o: &tcp::Signature) { out.push(format!("T {} {} {}", tcp_tag(s, o), p_tcp(s), p_tcp(o))); }
fn push_h(out: &mut Vec<String>, k: &str, s: &http::Signature, o: &http::Signature) { out.push(format!("{} {} {} {}", k, http_tag(s, o), p_http(s), p_http(o))); }

fn ttl_forms(grid: &[u8]) -> Vec<Ttl> {
    let mut v = vec![];
    for &a in grid { v.push(Ttl::Value(a)); v.push(Ttl::Guess(a)); v.push(Ttl::Bad(a)); for &b in grid { v.push(Ttl::Distance(a, b)); } }
    v
}
fn win_forms() -> Vec<WindowSize> {
    let mut v = vec![WindowSize::Any];
    for k in [0u8, 1, 2, 4, 44, 255] { v.push(WindowSize::Mss(k)); v.push(WindowSize::Mtu(k)); }
    for w in [0u16, 1, 2, 4, 1460, 1461, 2920, 5840, 8192, 64240, 65535] { v.push(WindowSize::Value(w)); v.push(WindowSize::Mod(w)); }
    v
}
/// all header lists up to `maxlen` over names {A,B,C}, values {none, "1"} (+ optional marks for signatures)
fn all_hlists(maxlen: usize, sig: bool) -> Vec<Vec<Header>> {
    let mut elems = vec![];
    for n in ["A", "B", "C"] { for v in [None, Some("1")] { for opt in if sig { vec![false, true] } else { vec![false] } {
        elems.push(Header { optional: opt, name: n.to_string(), value: v.map(|s| s.to_string()) });
    }}}
    let mut all: Vec<Vec<Header>> = vec![vec![]];
    let mut last: Vec<Vec<Header>> = vec![vec![]];
    for _ in 0..maxlen {
        let mut next = vec![];
        for l in &last { for e in &elems { let mut x = l.clone(); x.push(e.clone()); next.push(x); } }
        all.extend(next.iter().cloned());
        last = next;
    }
    all
}

fn gen(r: &mut Rng, tier: &Tier, out: &mut Vec<String>) {
    // ---- stream 1: structured random signatures, instances (incl. known classes), single-field mutations ----
    for _ in 0..tier.scale(1200, 30000) {
        let s = g_tcp_sig(r);
        let lit = r.chance(2, 3);
        let o = g_tcp_instance(r, &s, lit);
        push_t(out, &s, &o);
        for _ in 0..3 { let mut m = o.clone(); mutate_tcp(r, &mut m); if r.chance(1, 4) { mutate_tcp(r, &mut m); } push_t(out, &s, &m); }
        if r.chance(1, 4) { let o2 = g_tcp_sig(r); push_t(out, &s, &o2); }
    }
    for _ in 0..tier.scale(1200, 30000) {
        let s = g_http_sig(r);
        let lit = r.chance(1, 2);
        let o = g_http_instance(r, &s, lit);
        let k = if r.chance(1, 2) { "H" } else { "R" };
        push_h(out, k, &s, &o);
        for _ in 0..3 { let mut m = o.clone(); mutate_http(r, &mut m); if r.chance(1, 3) { mutate_http(r, &mut m); } push_h(out, k, &s, &m); }
        if r.chance(1, 4) { let o2 = g_http_sig(r); push_h(out, k, &s, &o2); }
    }
    // ---- stream 2: exhaustive-small sweeps ----
    let b = base_tcp();
    // all TTL form pairs over the grid
    let grid: &[u8] = if tier.thorough { &[0, 1, 2, 29, 30, 31, 32, 33, 34, 35, 63, 64, 65, 98, 128, 225, 254, 255] } else { &[0, 1, 29, 30, 31, 63, 64, 65, 254, 255] };
    let forms = ttl_forms(grid);
    for st in &forms { for ot in &forms {
        let mut s = b.clone(); s.ittl = st.clone(); let mut o = b.clone(); o.ittl = ot.clone(); push_t(out, &s, &o);
    }}
    // every observed TTL 0..255 as the extractor would report it against every initial value signature
    for init in [32u8, 64, 128, 255] { for t in 0..=255u8 { for d in [0u8, 1, 30, 31] {
        let mut s = b.clone(); s.ittl = Ttl::Value(init); let mut o = b.clone(); o.ittl = Ttl::Distance(t, d); push_t(out, &s, &o);
    }}}
    // all window form pairs x observed MSS
    let wf = win_forms();
    for sw in &wf { for ow in &wf { for m in [None, Some(0u16), Some(1), Some(2), Some(1460), Some(1461), Some(65535)] {
        let mut s = b.clone(); s.wsize = sw.clone(); s.mss = None; let mut o = b.clone(); o.wsize = ow.clone(); o.mss = m; push_t(out, &s, &o);
    }}}
    // presence / equality of mss, wscale, olen
    for sm in [None, Some(0u16), Some(1460), Some(1461)] { for om in [None, Some(0u16), Some(1460), Some(1461)] {
    for sw in [None, Some(0u8), Some(7), Some(8)] { for ow in [None, Some(0u8), Some(7), Some(8)] {
    for sl in [0u8, 4] { for ol in [0u8, 4, 255] {
        let mut s = b.clone(); s.mss = sm; s.wscale = sw; s.olen = sl; let mut o = b.clone(); o.mss = om; o.wscale = ow; o.olen = ol; push_t(out, &s, &o);
    }}}}}}
    // decisive fields: version x pclass, all 9 x 9
    for sv in [IpVersion::V4, IpVersion::V6, IpVersion::Any] { for ov in [IpVersion::V4, IpVersion::V6, IpVersion::Any] {
    for sp in [PayloadSize::Zero, PayloadSize::NonZero, PayloadSize::Any] { for op in [PayloadSize::Zero, PayloadSize::NonZero, PayloadSize::Any] {
        let mut s = b.clone(); s.version = sv; s.pclass = sp; let mut o = b.clone(); o.version = ov; o.pclass = op; push_t(out, &s, &o);
    }}}}
    // quirks that depend on the IP version: all ordered sub-lists of (df, id+, flow, ecn, 0+) on both sides x 3 x 3 versions
    {
        use huginn_net_db::tcp::Quirk;
        let qs = [Quirk::Df, Quirk::NonZeroID, Quirk::FlowID, Quirk::Ecn, Quirk::MustBeZero];
        let subs: Vec<Vec<Quirk>> = (0..32u32).map(|m| qs.iter().enumerate().filter(|(i, _)| m >> i & 1 == 1).map(|(_, q)| q.clone()).collect()).collect();
        for sv in [IpVersion::V4, IpVersion::V6, IpVersion::Any] { for ov in [IpVersion::V4, IpVersion::V6, IpVersion::Any] {
            for sq in &subs { for oq in &subs {
                if !tier.thorough && sq.len() + oq.len() > 6 { continue; }
                let mut s = b.clone(); s.version = sv; s.quirks = sq.clone(); let mut o = b.clone(); o.version = ov; o.quirks = oq.clone(); push_t(out, &s, &o);
            }}
        }}
        // reversed order is another list
        let mut s = b.clone(); s.version = IpVersion::Any; s.quirks = vec![Quirk::Ecn, Quirk::Df, Quirk::FlowID];
        for ov in [IpVersion::V4, IpVersion::V6] { for oq in [vec![Quirk::Ecn, Quirk::FlowID], vec![Quirk::FlowID, Quirk::Ecn], vec![Quirk::Ecn, Quirk::Df], vec![Quirk::Df, Quirk::Ecn]] {
            let mut o = b.clone(); o.version = ov; o.quirks = oq; push_t(out, &s, &o);
        }}
    }
    // header lists: exhaustive up to length 2 (quick) / 3 (thorough); a seeded sample of the length-3 / length-4 product
    let hb = r_http("1:-:-:-");
    let (ex, sm) = if tier.thorough { (3, 4) } else { (2, 3) };
    let sigs = all_hlists(ex, true); let obss = all_hlists(ex, false);
    for sl in &sigs { for ol in &obss {
        let mut s = hb.clone(); s.horder = sl.clone(); let mut o = hb.clone(); o.horder = ol.clone(); push_h(out, "H", &s, &o);
    }}
    let sigs2 = all_hlists(sm, true); let obss2 = all_hlists(sm, false);
    for _ in 0..tier.scale(6000, 100000) {
        let sl = r.pick(&sigs2); let ol = r.pick(&obss2);
        let mut s = hb.clone(); let mut o = hb.clone();
        if r.chance(1, 4) { s.habsent = sl.clone(); o.habsent = ol.clone(); } else { s.horder = sl.clone(); o.horder = ol.clone(); }
        push_h(out, if r.chance(1, 2) { "H" } else { "R" }, &s, &o);
    }
    // error bands: k required signature headers missing / k unexpected observed headers, k = 0..14, both lists
    for k in 0..=14usize { for extra in 0..=3usize {
        let req: Vec<Header> = (0..k).map(|i| Header { optional: false, name: format!("S{}", i), value: None }).collect();
        let unexp: Vec<Header> = (0..extra).map(|i| Header { optional: false, name: format!("O{}", i), value: None }).collect();
        let mut s = hb.clone(); s.horder = req.clone(); let mut o = hb.clone(); o.horder = unexp.clone(); push_h(out, "H", &s, &o);
        let mut s = hb.clone(); s.habsent = req.clone(); s.horder = unexp.clone(); let mut o = hb.clone(); o.habsent = unexp.clone(); push_h(out, "R", &s, &o);
    }}
    // long header lists: signatures with 12..20 optional headers between a few required ones; instances with none, one, two,
    // a random subset and all of the optional ones present; the same with one required header missing / one unexpected header;
    // in horder and in habsent, request and response copies
    {
        const ONAMES: [&str; 20] = ["Cookie", "Referer", "Origin", "Range", "If-Modified-Since", "If-None-Match", "Via", "X-Forwarded-For",
            "Authorization", "Proxy-Authorization", "Cache-Control", "Accept-Language", "DNT", "Pragma", "TE", "Upgrade", "Expect", "From", "Warning", "X-a"];
        let hd = |n: &str, v: Option<&str>, opt: bool| Header { optional: opt, name: n.to_string(), value: v.map(|x| x.to_string()) };
        let nopts: Vec<usize> = if tier.thorough { (12..=20).collect() } else { vec![12, 13, 16, 20] };
        for &nopt in &nopts { for variant in 0..tier.scale(2, 6) {
            // required: Host first, Connection last, sometimes one in the middle
            let mid = variant % 2 == 1;
            let mut sig: Vec<Header> = vec![hd("Host", None, false)];
            for (i, n) in ONAMES.iter().take(nopt).enumerate() {
                if mid && i == nopt / 2 { sig.push(hd("User-Agent", None, false)); }
                sig.push(hd(n, if (i + variant) % 3 == 0 { Some("1") } else { None }, true));
            }
            sig.push(hd("Connection", Some("keep-alive"), false));
            let opt_idx: Vec<usize> = (0..sig.len()).filter(|&i| sig[i].optional).collect();
            let mut keeps: Vec<Vec<usize>> = vec![vec![], opt_idx.clone()];
            for _ in 0..2 { keeps.push(vec![*r.pick(&opt_idx)]); }
            keeps.push(vec![opt_idx[0]]); keeps.push(vec![opt_idx[nopt - 1]]);
            for _ in 0..2 { let a = *r.pick(&opt_idx); let b = *r.pick(&opt_idx); keeps.push(vec![a.min(b), a.max(b)]); }
            keeps.push(opt_idx.iter().cloned().filter(|_| r.chance(1, 3)).collect());
            keeps.push(opt_idx.iter().cloned().filter(|_| r.chance(5, 6)).collect());
            for keep in &keeps {
                let obs: Vec<Header> = sig.iter().enumerate().filter(|(i, h)| !h.optional || keep.contains(i))
                    .map(|(_, h)| Header { optional: false, name: h.name.clone(), value: h.value.clone() }).collect();
                for (k, in_absent) in [("H", false), ("R", false), ("H", true), ("R", true)] {
                    if !tier.thorough && in_absent && keep.len() > 2 { continue; }
                    let mut s = hb.clone(); let mut o = hb.clone();
                    if in_absent { s.habsent = sig.clone(); o.habsent = obs.clone(); } else { s.horder = sig.clone(); o.horder = obs.clone(); }
                    push_h(out, k, &s, &o);
                    if k == "H" && !in_absent {
                        // one required header missing; one unexpected header; one optional header with another value
                        let mut o1 = o.clone(); o1.horder.pop(); push_h(out, k, &s, &o1);
                        let mut o2 = o.clone(); o2.horder.insert(1, hd("X-unexpected", None, false)); push_h(out, k, &s, &o2);
                        if let Some(&i) = keep.first() { let mut o3 = o.clone(); let nm = sig[i].name.clone(); for h in o3.horder.iter_mut() { if h.name == nm { h.value = Some("other".into()); } } push_h(out, k, &s, &o3); }
                    }
                }
            }
        }}
        // length difference 9..14 in both directions, by kind of surplus: optional signature headers (free), required signature
        // headers (one error each), unexpected observed headers (one error each), and mixtures around the tolerance of 11 errors
        for d in 9..=14usize { for (k, in_absent) in [("H", false), ("R", true)] {
            let base = vec![hd("Host", None, false), hd("Connection", Some("close"), false)];
            let put = |sl: Vec<Header>, ol: Vec<Header>, out: &mut Vec<String>| {
                let mut s = hb.clone(); let mut o = hb.clone();
                if in_absent { s.habsent = sl; o.habsent = ol; } else { s.horder = sl; o.horder = ol; }
                push_h(out, k, &s, &o);
            };
            let surplus = |n: usize, opt: bool, tag: &str| -> Vec<Header> { (0..n).map(|i| hd(&format!("{}{}", tag, i), None, opt)).collect() };
            // signature longer by d: all optional / all required / d-1 optional + 1 required / 11 required + rest optional
            for (nreq, nopt) in [(0, d), (d, 0), (1, d - 1), (d.min(11), d - d.min(11)), (d.min(12), d - d.min(12))] {
                let mut sl = vec![base[0].clone()]; sl.extend(surplus(nopt, true, "O")); sl.extend(surplus(nreq, false, "S")); sl.push(base[1].clone());
                put(sl.clone(), base.clone(), out);
                // ... and against an empty observation (difference d + 2)
                put(sl, vec![], out);
            }
            // observation longer by d: unexpected headers at the end / in the middle; with optional signature headers absent as well
            let mut ol = base.clone(); ol.extend(surplus(d, false, "U")); put(base.clone(), ol, out);
            let mut ol = vec![base[0].clone()]; ol.extend(surplus(d, false, "U")); ol.push(base[1].clone()); put(base.clone(), ol.clone(), out);
            let mut sl = vec![base[0].clone()]; sl.extend(surplus(3, true, "O")); sl.push(base[1].clone()); put(sl, ol, out);
            put(vec![], surplus(d, false, "U"), out);
            // equal lengths, d mismatching required names (2d errors)
            put(surplus(d, false, "S"), surplus(d, false, "U"), out);
        }}
    }
    // software strings: all pairs over {a,b}^<=3 plus the realistic table
    let mut strs: Vec<String> = vec![String::new()];
    let mut last = vec![String::new()];
    for _ in 0..3 { let mut nx = vec![]; for l in &last { for c in ["a", "b"] { nx.push(format!("{}{}", l, c)); } } strs.extend(nx.iter().cloned()); last = nx; }
    for x in SOFTWARE { strs.push(x.to_string()); }
    for a in &strs { for c in &strs { let mut s = hb.clone(); s.expsw = a.clone(); let mut o = hb.clone(); o.expsw = c.clone(); push_h(out, "H", &s, &o); } }
    // HTTP versions 5 x 5
    for sv in [Version::V10, Version::V11, Version::V20, Version::V30, Version::Any] { for ov in [Version::V10, Version::V11, Version::V20, Version::V30, Version::Any] {
        let mut s = hb.clone(); s.version = sv; let mut o = hb.clone(); o.version = ov; push_h(out, "H", &s, &o); push_h(out, "R", &s, &o);
    }}
    // quality tables
    for t in ["t", "h"] {
        for d in 0..=40u32 { out.push(format!("Q {} {}", t, d)); }
        for d in [41u32, 100, 255, 256, 65535, 65536, 1 << 31, u32::MAX - 1, u32::MAX] { out.push(format!("Q {} {}", t, d)); }
        for _ in 0..tier.scale(50, 2000) { out.push(format!("Q {} {}", t, r.next() as u32 >> r.below(32))); }
    }
    // ---- stream 3: the bundled database: every signature against instances / mutations of itself ----
    let db = Database::load_default().expect("bundled database");
    let reps = tier.scale(3, 40);
    for col in [&db.tcp_request, &db.tcp_response] { for (_l, sigs) in &col.entries { for s in sigs {
        for i in 0..reps { let o = g_tcp_instance(r, s, i % 2 == 0); push_t(out, s, &o); let mut m = o.clone(); mutate_tcp(r, &mut m); push_t(out, s, &m); }
    }}}
    let http_cols: Vec<(&str, Vec<&http::Signature>)> = vec![
        ("H", db.http_request.entries.iter().flat_map(|(_, v)| v.iter()).collect()),
        ("R", db.http_response.entries.iter().flat_map(|(_, v)| v.iter()).collect())];
    for (k, sigs) in &http_cols { for s in sigs {
        out.push(format!("W {}", p_http(s)));
        for i in 0..reps { let o = g_http_instance(r, s, i % 2 == 0); push_h(out, k, s, &o); let mut m = o.clone(); mutate_http(r, &mut m); push_h(out, k, s, &m); }
    }}
}

fn main() { main_cli(gen, run) }
