//! Text encoding of TCP / HTTP signatures and observations inside case lines, and seeded generators of
//! signatures, instances and mutations.  Grammar: coq/Model/SigCase.v.  Shared by harness/c12 and
//! harness/c02 (`#[path]` include).
#![allow(dead_code)]
use hnv_common::*;
use huginn_net_db::http::{self, Header, Version};
use huginn_net_db::observable_signals::{HttpRequestObservation, HttpResponseObservation, TcpObservation};
use huginn_net_db::tcp::{self, IpVersion, PayloadSize, Quirk, TcpOption, Ttl, WindowSize};

pub const QUIRKS: [Quirk; 17] = [Quirk::Df, Quirk::NonZeroID, Quirk::ZeroID, Quirk::Ecn, Quirk::MustBeZero, Quirk::FlowID,
    Quirk::SeqNumZero, Quirk::AckNumNonZero, Quirk::AckNumZero, Quirk::NonZeroURG, Quirk::Urg, Quirk::Push,
    Quirk::OwnTimestampZero, Quirk::PeerTimestampNonZero, Quirk::TrailinigNonZero, Quirk::ExcessiveWindowScaling, Quirk::OptBad];

// ---------- printing ----------
pub fn p_ver(v: IpVersion) -> &'static str { match v { IpVersion::V4 => "4", IpVersion::V6 => "6", IpVersion::Any => "*" } }
pub fn p_ttl(t: &Ttl) -> String {
    match t { Ttl::Value(a) => format!("v{}", a), Ttl::Distance(a, b) => format!("d{}.{}", a, b), Ttl::Guess(a) => format!("g{}", a), Ttl::Bad(a) => format!("b{}", a) }
}
pub fn p_optnum<T: std::fmt::Display>(o: &Option<T>) -> String { match o { None => "*".into(), Some(n) => n.to_string() } }
pub fn p_wsize(w: &WindowSize) -> String {
    match w { WindowSize::Mss(k) => format!("s{}", k), WindowSize::Mtu(k) => format!("t{}", k), WindowSize::Value(v) => format!("v{}", v),
              WindowSize::Mod(n) => format!("m{}", n), WindowSize::Any => "*".into() }
}
pub fn p_opt(o: &TcpOption) -> String {
    match o { TcpOption::Eol(n) => format!("e{}", n), TcpOption::Nop => "n".into(), TcpOption::Mss => "m".into(), TcpOption::Ws => "w".into(),
              TcpOption::Sok => "k".into(), TcpOption::Sack => "a".into(), TcpOption::TS => "t".into(), TcpOption::Unknown(n) => format!("u{}", n) }
}
pub fn p_list(v: Vec<String>) -> String { if v.is_empty() { "-".into() } else { v.join(",") } }
pub fn p_pclass(p: PayloadSize) -> &'static str { match p { PayloadSize::Zero => "0", PayloadSize::NonZero => "+", PayloadSize::Any => "*" } }
pub fn p_tcp(s: &tcp::Signature) -> String {
    format!("{}:{}:{}:{}:{}:{}:{}:{}:{}", p_ver(s.version), p_ttl(&s.ittl), s.olen, p_optnum(&s.mss), p_wsize(&s.wsize), p_optnum(&s.wscale),
        p_list(s.olayout.iter().map(p_opt).collect()),
        p_list(s.quirks.iter().map(|q| QUIRKS.iter().position(|x| x == q).unwrap().to_string()).collect()), p_pclass(s.pclass))
}
pub fn p_hver(v: Version) -> &'static str { match v { Version::V10 => "0", Version::V11 => "1", Version::V20 => "2", Version::V30 => "3", Version::Any => "*" } }
pub fn p_header(h: &Header) -> String {
    let mut s = String::from(if h.optional { "?" } else { "!" });
    s.push_str(&hex(h.name.as_bytes()));
    if let Some(v) = &h.value { s.push('='); s.push_str(&hex(v.as_bytes())); }
    s
}
pub fn p_http(s: &http::Signature) -> String {
    format!("{}:{}:{}:{}", p_hver(s.version), p_list(s.horder.iter().map(p_header).collect()), p_list(s.habsent.iter().map(p_header).collect()),
        hex_or_dash(s.expsw.as_bytes()))
}

// ---------- parsing ----------
pub fn r_list<T>(s: &str, f: fn(&str) -> T) -> Vec<T> { if s == "-" { vec![] } else { s.split(',').map(f).collect() } }
pub fn r_ttl(s: &str) -> Ttl {
    let (c, r) = s.split_at(1);
    match c {
        "v" => Ttl::Value(r.parse().unwrap()), "g" => Ttl::Guess(r.parse().unwrap()), "b" => Ttl::Bad(r.parse().unwrap()),
        "d" => { let (a, b) = r.split_once('.').unwrap(); Ttl::Distance(a.parse().unwrap(), b.parse().unwrap()) }
        _ => panic!("ttl"),
    }
}
pub fn r_wsize(s: &str) -> WindowSize {
    if s == "*" { return WindowSize::Any; }
    let (c, r) = s.split_at(1);
    match c { "s" => WindowSize::Mss(r.parse().unwrap()), "t" => WindowSize::Mtu(r.parse().unwrap()), "v" => WindowSize::Value(r.parse().unwrap()),
              "m" => WindowSize::Mod(r.parse().unwrap()), _ => panic!("wsize") }
}
pub fn r_opt(s: &str) -> TcpOption {
    match s { "n" => TcpOption::Nop, "m" => TcpOption::Mss, "w" => TcpOption::Ws, "k" => TcpOption::Sok, "a" => TcpOption::Sack, "t" => TcpOption::TS,
        _ => { let (c, r) = s.split_at(1); match c { "e" => TcpOption::Eol(r.parse().unwrap()), "u" => TcpOption::Unknown(r.parse().unwrap()), _ => panic!("opt") } } }
}
pub fn r_quirk(s: &str) -> Quirk { QUIRKS[s.parse::<usize>().unwrap()].clone() }
pub fn r_tcp(s: &str) -> tcp::Signature {
    let f: Vec<&str> = s.split(':').collect();
    assert!(f.len() == 9);
    tcp::Signature {
        version: match f[0] { "4" => IpVersion::V4, "6" => IpVersion::V6, "*" => IpVersion::Any, _ => panic!("ver") },
        ittl: r_ttl(f[1]), olen: f[2].parse().unwrap(),
        mss: if f[3] == "*" { None } else { Some(f[3].parse().unwrap()) },
        wsize: r_wsize(f[4]),
        wscale: if f[5] == "*" { None } else { Some(f[5].parse().unwrap()) },
        olayout: r_list(f[6], r_opt), quirks: r_list(f[7], r_quirk),
        pclass: match f[8] { "0" => PayloadSize::Zero, "+" => PayloadSize::NonZero, "*" => PayloadSize::Any, _ => panic!("pclass") },
    }
}
pub fn to_obs(s: &tcp::Signature) -> TcpObservation {
    TcpObservation { version: s.version, ittl: s.ittl.clone(), olen: s.olen, mss: s.mss, wsize: s.wsize.clone(), wscale: s.wscale,
        olayout: s.olayout.clone(), quirks: s.quirks.clone(), pclass: s.pclass }
}
pub fn r_header(s: &str) -> Header {
    let (c, r) = s.split_at(1);
    let optional = match c { "?" => true, "!" => false, _ => panic!("hdr") };
    let st = |h: &str| String::from_utf8(unhex(h)).unwrap();
    match r.split_once('=') { Some((n, v)) => Header { optional, name: st(n), value: Some(st(v)) }, None => Header { optional, name: st(r), value: None } }
}
pub fn r_http(s: &str) -> http::Signature {
    let f: Vec<&str> = s.split(':').collect();
    assert!(f.len() == 4);
    http::Signature {
        version: match f[0] { "0" => Version::V10, "1" => Version::V11, "2" => Version::V20, "3" => Version::V30, "*" => Version::Any, _ => panic!("hver") },
        horder: r_list(f[1], r_header), habsent: r_list(f[2], r_header), expsw: String::from_utf8(unhex_or_dash(f[3])).unwrap(),
    }
}
pub fn to_req(s: &http::Signature) -> HttpRequestObservation {
    HttpRequestObservation { version: s.version, horder: s.horder.clone(), habsent: s.habsent.clone(), expsw: s.expsw.clone() }
}
pub fn to_resp(s: &http::Signature) -> HttpResponseObservation {
    HttpResponseObservation { version: s.version, horder: s.horder.clone(), habsent: s.habsent.clone(), expsw: s.expsw.clone() }
}
/// quality as hundredths "<int>.<dd>" (never a float comparison)
pub fn p_quality(q: f32) -> String { let h = (q * 100.0).round() as u32; format!("{}.{:02}", h / 100, h % 100) }

// ---------- the generator's own reading of "instance" / "decisive mismatch" (claims; the Gallina side checks them) ----------
pub fn ttl_initial(t: &Ttl) -> u32 { match t { Ttl::Value(i) | Ttl::Guess(i) | Ttl::Bad(i) => *i as u32, Ttl::Distance(a, b) => *a as u32 + *b as u32 } }
/// which of the five non-decisive fields (ittl, olen, mss, wsize, wscale) of `o` the signature admits
pub fn tcp_admits(s: &tcp::Signature, o: &tcp::Signature) -> [bool; 5] {
    let ttl = o.ittl == s.ittl || matches!(&o.ittl, Ttl::Distance(t, d) if *d <= 30 && *t as u32 + *d as u32 == ttl_initial(&s.ittl));
    let mss = s.mss.is_none() || o.mss == s.mss;
    let win = o.wsize == s.wsize || match (&s.wsize, &o.wsize) {
        (WindowSize::Any, _) => true,
        (WindowSize::Mss(k), WindowSize::Value(w)) => matches!(o.mss, Some(m) if m > 0 && *w as u32 == *k as u32 * m as u32),
        (WindowSize::Mod(n), WindowSize::Value(w)) => *n > 0 && w % n == 0,
        _ => false };
    let wsc = s.wscale.is_none() || o.wscale == s.wscale;
    [ttl, o.olen == s.olen, mss, win, wsc]
}
pub fn tcp_is_instance(s: &tcp::Signature, o: &tcp::Signature) -> bool { !tcp_is_decisive(s, o) && tcp_admits(s, o).iter().all(|x| *x) }
/// the signature's quirks that apply to a packet of IP version `v`: df, id+, id-, 0+ are ignored for IPv6, flow for IPv4
pub fn sig_quirks_for(v: IpVersion, qs: &[Quirk]) -> Vec<Quirk> {
    qs.iter().filter(|q| match v {
        IpVersion::V6 => !matches!(q, Quirk::Df | Quirk::NonZeroID | Quirk::ZeroID | Quirk::MustBeZero),
        IpVersion::V4 => !matches!(q, Quirk::FlowID),
        IpVersion::Any => true }).cloned().collect()
}
pub fn tcp_is_decisive(s: &tcp::Signature, o: &tcp::Signature) -> bool {
    !(s.version == IpVersion::Any || o.version == s.version) || o.olayout != s.olayout || o.quirks != sig_quirks_for(o.version, &s.quirks)
        || !(s.pclass == PayloadSize::Any || o.pclass == s.pclass)
}
pub fn hdr_is_instance(sig: &[Header], obs: &[Header]) -> bool {
    match sig.split_first() {
        None => obs.is_empty(),
        Some((sh, rest)) => {
            (match obs.split_first() { Some((oh, orest)) => oh.name == sh.name && oh.value == sh.value && hdr_is_instance(rest, orest), None => false })
                || (sh.optional && hdr_is_instance(rest, obs))
        }
    }
}
pub fn http_is_instance(s: &http::Signature, o: &http::Signature) -> bool {
    (s.version == Version::Any || o.version == s.version) && hdr_is_instance(&s.horder, &o.horder) && hdr_is_instance(&s.habsent, &o.habsent)
        && o.expsw.contains(s.expsw.as_str())
}
pub fn http_is_decisive(s: &http::Signature, o: &http::Signature) -> bool { !(s.version == Version::Any || o.version == s.version) }
pub fn tcp_tag(s: &tcp::Signature, o: &tcp::Signature) -> &'static str {
    if tcp_is_decisive(s, o) { return "D"; }
    match tcp_admits(s, o).iter().filter(|x| !**x).count() { 0 => "I", 1 => "F", _ => "-" }
}
pub fn http_tag(s: &http::Signature, o: &http::Signature) -> &'static str {
    if http_is_instance(s, o) { "I" } else if http_is_decisive(s, o) { "D" }
    else if hdr_is_instance(&s.horder, &o.horder) && hdr_is_instance(&s.habsent, &o.habsent) { "F" } else { "-" }
}

// ---------- random signatures ----------
pub const TTL_GRID: &[u8] = &[0, 1, 29, 30, 31, 32, 63, 64, 65, 127, 128, 129, 254, 255];
pub const MSS_GRID: &[u16] = &[0, 1, 536, 1024, 1380, 1400, 1440, 1452, 1460, 1461, 8192, 65535];
pub const WIN_GRID: &[u16] = &[0, 1, 2, 512, 1024, 1460, 2920, 4096, 5840, 8192, 14600, 16384, 32768, 65535];

pub fn g_ttl(r: &mut Rng) -> Ttl {
    let a = if r.chance(3, 4) { *r.pick(TTL_GRID) } else { r.below(256) as u8 };
    match r.below(8) {
        0..=3 => Ttl::Value(a),
        4 => Ttl::Guess(a),
        5 => Ttl::Bad(a),
        _ => { let d = r.below(40) as u8; Ttl::Distance(a.saturating_sub(d), d) }
    }
}
pub fn g_wsize(r: &mut Rng) -> WindowSize {
    let k = if r.chance(2, 3) { r.range(1, 10) as u8 } else { r.below(256) as u8 };
    let w = if r.chance(2, 3) { *r.pick(WIN_GRID) } else { r.below(65536) as u16 };
    match r.below(6) { 0 => WindowSize::Mss(k), 1 => WindowSize::Mtu(k), 2 | 3 => WindowSize::Value(w), 4 => WindowSize::Mod(w), _ => WindowSize::Any }
}
pub fn g_opt(r: &mut Rng) -> TcpOption {
    match r.below(10) { 0 => TcpOption::Eol(r.below(4) as u8), 1 | 2 => TcpOption::Nop, 3 | 4 => TcpOption::Mss, 5 => TcpOption::Ws, 6 => TcpOption::Sok,
        7 => TcpOption::Sack, 8 => TcpOption::TS, _ => TcpOption::Unknown(r.below(256) as u8) }
}
pub const LAYOUTS: &[&str] = &["m", "m,k,t,n,w", "m,n,w,n,n,k", "m,n,n,k", "m,n,w,k,t", "-", "m,w,k,t,e1", "n,n,t", "m,n,n,t,n,w,k,e2", "u5,m"];
pub fn g_layout(r: &mut Rng) -> Vec<TcpOption> {
    if r.chance(3, 4) { { let l: &str = *r.pick(LAYOUTS); r_list(l, r_opt) } } else { (0..r.below(7)).map(|_| g_opt(r)).collect() }
}
pub fn g_quirks(r: &mut Rng) -> Vec<Quirk> {
    match r.below(4) { 0 => vec![], 1 => vec![Quirk::Df, Quirk::NonZeroID], 2 => vec![Quirk::Df],
        _ => (0..r.below(4)).map(|_| QUIRKS[r.below(17) as usize].clone()).collect() }
}
pub fn g_tcp_sig(r: &mut Rng) -> tcp::Signature {
    tcp::Signature {
        version: match r.below(4) { 0 => IpVersion::V4, 1 => IpVersion::V6, _ => IpVersion::Any },
        ittl: g_ttl(r),
        olen: if r.chance(3, 4) { 0 } else { *r.pick(&[4u8, 8, 20, 40, 255]) },
        mss: if r.chance(1, 2) { None } else { Some(*r.pick(MSS_GRID)) },
        wsize: g_wsize(r),
        wscale: if r.chance(1, 3) { None } else { Some(*r.pick(&[0u8, 1, 2, 6, 7, 8, 14, 15, 255])) },
        olayout: g_layout(r), quirks: g_quirks(r),
        pclass: match r.below(4) { 0 => PayloadSize::Zero, 1 => PayloadSize::NonZero, _ => PayloadSize::Any },
    }
}
/// an observation that instantiates `s` (in the generator's reading); `lit` = stay with the literal forms the
/// matcher knows (no known-class instances)
pub fn g_tcp_instance(r: &mut Rng, s: &tcp::Signature, lit: bool) -> tcp::Signature {
    let mut o = s.clone();
    if s.version == IpVersion::Any { o.version = if r.chance(1, 2) { IpVersion::V4 } else { IpVersion::V6 }; }
    o.quirks = sig_quirks_for(o.version, &s.quirks);
    let init = ttl_initial(&s.ittl);
    let as_value = matches!(s.ittl, Ttl::Value(_));
    if (as_value || !lit) && r.chance(2, 3) && init <= 255 {
        let d = r.below(31).min(init as u64) as u8;
        o.ittl = Ttl::Distance(init as u8 - d, d);
    }
    if s.mss.is_none() { o.mss = if r.chance(1, 5) { None } else { Some(*r.pick(MSS_GRID)) }; }
    match &s.wsize {
        WindowSize::Any => o.wsize = loop { let w = g_wsize(r); if w != WindowSize::Any { break w; } },
        WindowSize::Mss(k) => if r.chance(1, 2) { if let Some(m) = o.mss { let w = *k as u32 * m as u32; if m > 0 && w <= 65535 { o.wsize = WindowSize::Value(w as u16); } } },
        WindowSize::Mod(n) => if !lit && *n > 0 && r.chance(1, 2) { let w = *n as u32 * r.below(4) as u32; if w <= 65535 { o.wsize = WindowSize::Value(w as u16); } },
        _ => {}
    }
    if s.wscale.is_none() { o.wscale = if r.chance(1, 5) { None } else { Some(r.below(15) as u8) }; }
    if s.pclass == PayloadSize::Any { o.pclass = if r.chance(1, 2) { PayloadSize::Zero } else { PayloadSize::NonZero }; }
    o
}
/// change one field of `o`; returns the field index (0 ver 1 ttl 2 olen 3 mss 4 wsize 5 wscale 6 olayout 7 quirks 8 pclass)
pub fn mutate_tcp(r: &mut Rng, o: &mut tcp::Signature) -> u64 {
    let f = r.below(9);
    match f {
        0 => o.version = match o.version { IpVersion::V4 => IpVersion::V6, IpVersion::V6 => if r.chance(1, 5) { IpVersion::Any } else { IpVersion::V4 }, IpVersion::Any => IpVersion::V4 },
        1 => o.ittl = match (&o.ittl, r.below(4)) {
            (Ttl::Distance(t, d), 0) => Ttl::Distance(t.wrapping_add(1), *d),
            (Ttl::Distance(t, d), 1) => Ttl::Distance(*t, d.wrapping_add(1)),
            (Ttl::Distance(t, d), 2) => Ttl::Value(t.saturating_add(*d)),
            (Ttl::Value(a), 0) => Ttl::Value(a.wrapping_add(1)),
            (Ttl::Value(a), 1) => Ttl::Guess(*a),
            (Ttl::Value(a), 2) => Ttl::Bad(*a),
            _ => g_ttl(r) },
        2 => o.olen = o.olen.wrapping_add(if r.chance(1, 2) { 1 } else { 4 }),
        3 => o.mss = match o.mss { Some(m) => if r.chance(1, 4) { None } else { Some(m.wrapping_add(1)) }, None => Some(*r.pick(MSS_GRID)) },
        4 => o.wsize = match (&o.wsize, r.below(3)) {
            (WindowSize::Mss(k), 0) => WindowSize::Mss(k.wrapping_add(1)),
            (WindowSize::Value(w), 0) => WindowSize::Value(w.wrapping_add(1)),
            (WindowSize::Mod(w), 0) => WindowSize::Mod(w.wrapping_add(1)),
            (WindowSize::Mtu(k), 0) => WindowSize::Mtu(k.wrapping_add(1)),
            _ => g_wsize(r) },
        5 => o.wscale = match o.wscale { Some(w) => if r.chance(1, 4) { None } else { Some(w.wrapping_add(1)) }, None => Some(r.below(15) as u8) },
        6 => { if o.olayout.is_empty() || r.chance(1, 3) { o.olayout.push(g_opt(r)); } else if r.chance(1, 2) { o.olayout.pop(); } else { let i = r.below(o.olayout.len() as u64) as usize; o.olayout[i] = g_opt(r); } }
        7 => { if o.quirks.is_empty() || r.chance(1, 3) { o.quirks.push(QUIRKS[r.below(17) as usize].clone()); } else if r.chance(1, 2) { o.quirks.pop(); } else { o.quirks.reverse(); if o.quirks.len() < 2 { o.quirks.clear(); } } }
        _ => o.pclass = match o.pclass { PayloadSize::Zero => PayloadSize::NonZero, PayloadSize::NonZero => if r.chance(1, 5) { PayloadSize::Any } else { PayloadSize::Zero }, PayloadSize::Any => PayloadSize::Zero },
    }
    f
}

pub const HNAMES: &[&str] = &["Host", "User-Agent", "Accept", "Accept-Encoding", "Accept-Language", "Accept-Charset", "Connection", "Keep-Alive",
    "Cache-Control", "Pragma", "Referer", "Cookie", "Server", "Date", "Content-Type", "Content-Length", "X-a", "Via", "TE", ""];
pub const HVALUES: &[&str] = &["keep-alive", "close", "*/*", "gzip,deflate", "en-us,en;q=0.5", "1", "2", "", "300", "text/html"];
pub const SOFTWARE: &[&str] = &["", "Firefox/", "MSIE 8", "curl", "curl/7.88", "Apache", "Apache/2.4.1 (Unix)", "nginx", "Mozilla/5.0 Firefox/3.6", "a", "ab", "aba", "b", "Ünï"];
pub fn g_header(r: &mut Rng, sig: bool) -> Header {
    Header { optional: sig && r.chance(1, 3), name: r.pick(HNAMES).to_string(), value: if r.chance(1, 2) { None } else { Some(r.pick(HVALUES).to_string()) } }
}
/// header list with pairwise distinct names (unless `dups`)
pub fn g_hlist(r: &mut Rng, sig: bool, maxlen: u64, dups: bool) -> Vec<Header> {
    let mut v: Vec<Header> = vec![];
    for _ in 0..r.below(maxlen + 1) {
        let h = g_header(r, sig);
        if dups || !v.iter().any(|x| x.name == h.name) { v.push(h); }
    }
    v
}
pub fn g_hver(r: &mut Rng, any: bool) -> Version {
    match r.below(if any { 7 } else { 4 }) { 0 => Version::V10, 1 => Version::V11, 2 => Version::V20, 3 => Version::V30, _ => Version::Any }
}
pub fn g_http_sig(r: &mut Rng) -> http::Signature {
    let dups = r.chance(1, 12);
    http::Signature { version: g_hver(r, true), horder: g_hlist(r, true, 9, dups), habsent: g_hlist(r, true, 4, dups), expsw: r.pick(SOFTWARE).to_string() }
}
pub fn hdr_instance(r: &mut Rng, sig: &[Header]) -> Vec<Header> {
    sig.iter().filter(|h| !(h.optional && r.chance(1, 2))).map(|h| Header { optional: false, name: h.name.clone(), value: h.value.clone() }).collect()
}
pub fn g_http_instance(r: &mut Rng, s: &http::Signature, lit: bool) -> http::Signature {
    let mut o = s.clone();
    if s.version == Version::Any { o.version = g_hver(r, false); }
    o.horder = hdr_instance(r, &s.horder);
    o.habsent = hdr_instance(r, &s.habsent);
    if !lit && r.chance(2, 3) {
        o.expsw = match r.below(3) { 0 => format!("{}{}", s.expsw, *r.pick(&["7.88.1", " ", "x", "/3.6.13"])), 1 => format!("Mozilla/5.0 ({}", s.expsw), _ => format!("a{}b", s.expsw) };
    }
    o
}
pub fn mutate_hlist(r: &mut Rng, v: &mut Vec<Header>) {
    match r.below(6) {
        0 => { let h = g_header(r, false); let i = r.below(v.len() as u64 + 1) as usize; v.insert(i, h); }
        1 => { if !v.is_empty() { let i = r.below(v.len() as u64) as usize; v.remove(i); } }
        2 => { if !v.is_empty() { let i = r.below(v.len() as u64) as usize; v[i].value = if r.chance(1, 2) { None } else { Some(r.pick(HVALUES).to_string()) }; } }
        3 => { if v.len() >= 2 { let i = r.below(v.len() as u64 - 1) as usize; v.swap(i, i + 1); } }
        4 => { for _ in 0..r.range(2, 14) { let h = Header { optional: false, name: format!("X-{}", r.below(1000)), value: None }; v.push(h); } }
        _ => { v.clear(); }
    }
}
pub fn mutate_http(r: &mut Rng, o: &mut http::Signature) {
    match r.below(5) {
        0 => { let any = r.chance(1, 6); o.version = g_hver(r, any); }
        1 | 2 => mutate_hlist(r, &mut o.horder),
        3 => mutate_hlist(r, &mut o.habsent),
        _ => o.expsw = match r.below(4) { 0 => r.pick(SOFTWARE).to_string(), 1 => { let mut s = o.expsw.clone(); s.pop(); s }, 2 => format!("{}x", o.expsw), _ => o.expsw.chars().skip(1).collect() },
    }
}
