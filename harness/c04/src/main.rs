//! C04 harness: ClientHello bytes -> huginn_net_tls::tls_process::parse_tls_client_hello -> the four JA4
//! strings of Signature::generate_ja4()/generate_ja4_original() and the separately reported fields.
//! Line grammar: see coq/Extract/EC04.v.
mod hello_gen;
use hello_gen::*;
use hnv_common::*;
use huginn_net_tls::tls::{Signature, TlsVersion};
use huginn_net_tls::tls_process::parse_tls_client_hello;

fn csv(l: &[u16]) -> String {
    if l.is_empty() { "-".into() } else { l.iter().map(|c| format!("{:04x}", c)).collect::<Vec<_>>().join(",") }
}
/// bytes outside 0x21..0x7e of a fingerprint string as \\xHH (the ALPN characters are copied verbatim into JA4_a)
fn esc(s: &str) -> String {
    let mut o = String::new();
    for &b in s.as_bytes() { if (0x21..=0x7e).contains(&b) { o.push(b as char) } else { o.push_str(&format!("\\x{:02x}", b)) } }
    o
}
fn opt_hex(o: Option<&[u8]>) -> String { match o { Some(b) => format!(":{}", hex(b)), None => "-".into() } }

pub fn sig_line(s: &Signature) -> String {
    let a = s.generate_ja4();
    let o = s.generate_ja4_original();
    let ver = match s.version { TlsVersion::Unknown(c) if s.version.to_string() == "00" => format!("00:{:04x}", c), v => format!("{}", v) };
    format!(
        "{} {} {} {} ver={} sni={} alpn={} ciphers={} exts={} sigalgs={} groups={} fmts={}",
        esc(a.full.value()), esc(a.raw.value()), esc(o.full.value()), esc(o.raw.value()), ver,
        opt_hex(s.sni.as_ref().map(|x| x.as_bytes())), opt_hex(s.alpn.as_ref().map(|x| x.as_bytes())),
        csv(&s.cipher_suites), csv(&s.extensions), csv(&s.signature_algorithms), csv(&s.elliptic_curves),
        opt_hex(Some(&s.elliptic_curve_point_formats))
    )
}
fn analyse(data: &[u8]) -> String {
    match parse_tls_client_hello(data) { Ok(Some(s)) => sig_line(&s), Ok(None) => "NONE".into(), Err(_) => "ERR".into() }
}
fn sorted_pair(data: &[u8]) -> String {
    match parse_tls_client_hello(data) {
        Ok(Some(s)) => { let a = s.generate_ja4(); format!("{} {}", esc(a.full.value()), esc(a.raw.value())) }
        Ok(None) => "NONE".into(),
        Err(_) => "ERR".into(),
    }
}

fn run(line: &str) -> String {
    let t: Vec<&str> = line.split_whitespace().collect();
    match t[0] {
        "R" => analyse(&unhex_or_dash(t[1])),
        // a hello and a variant of it (ciphers/extensions permuted, GREASE inserted or removed):
        // direct oracle on the implementation: the sorted fingerprints must be identical
        "V" => {
            let (a, b) = (sorted_pair(&unhex(t[1])), sorted_pair(&unhex(t[2])));
            let mut r = format!("{} | {}", a, b);
            if a != b { r.push_str("\t!JA4/JA4_r changed under permutation or GREASE insertion"); }
            r
        }
        _ => panic!("bad case"),
    }
}

fn push_r(out: &mut Vec<String>, b: &[u8]) { out.push(format!("R {}", hex_or_dash(b))); }

/// other handshake messages with bodies their parsers accept / reject
fn other_message(r: &mut Rng) -> Vec<u8> {
    let ht = *r.pick(&[0u8, 2, 2, 4, 5, 6, 11, 12, 13, 14, 15, 16, 20, 22, 24, 0x43, 3, 8, 21, 99]);
    let body: Vec<u8> = match ht {
        2 => {
            let mut b = vec![]; let v = *r.pick(&[0x0303u16, 0x0303, 0x0301, 0x0300, 0x7f12, 0x0304]);
            b.extend_from_slice(&v.to_be_bytes()); b.extend(r.bytes(32));
            if v != 0x7f12 { let n = *r.pick(&[0usize, 32, 33]); b.push(n as u8); b.extend(r.bytes(n.min(32))); }
            b.extend_from_slice(&[0x13, 0x01]);
            if v != 0x7f12 { b.push(0); }
            if r.chance(1, 2) { b.extend_from_slice(&[0, 0]); }
            if r.chance(1, 5) { let n = r.below(b.len() as u64) as usize; b.truncate(n); }
            b
        }
        4 => { let n = r.below(8) as usize; r.bytes(n) }
        6 => { let n = r.below(8) as usize; r.bytes(n) }
        11 => { let n = r.below(6) as usize; let mut b = vec![0, 0, (n as u8).wrapping_add(r.below(2) as u8)]; b.extend(r.bytes(n)); b }
        13 => {
            let mut b = vec![1, 1];
            if r.chance(2, 3) { b.extend_from_slice(&[0, 2, 4, 3]); }
            b.extend_from_slice(&[0, 0]);
            if r.chance(1, 3) { let n = r.below(b.len() as u64 + 1) as usize; b.truncate(n); }
            b
        }
        22 => { let n = r.below(5) as usize; let mut b = vec![1, 0, 0, n as u8]; b.extend(r.bytes(n)); if r.chance(1, 4) { b.pop(); } b }
        24 => { let n = r.below(2) as usize; r.bytes(n) }
        0x43 => { let mut b = vec![2, b'h', b'2', 1, 0]; if r.chance(1, 3) { let n = r.below(5) as usize; b.truncate(n); } b }
        _ => { let n = r.below(6) as usize; r.bytes(n) }
    };
    handshake(ht, &body)
}

fn malformed(r: &mut Rng, base: &[u8], out: &mut Vec<String>, n: usize) {
    for _ in 0..n {
        let mut b = base.to_vec();
        match r.below(9) {
            0 => { let k = r.below(b.len() as u64 + 1) as usize; b.truncate(k); }
            1 => { let d = r.range(1, 6) as u16; let l = u16::from_be_bytes([b[3], b[4]]); let l2 = if r.chance(1, 2) { l.wrapping_add(d) } else { l.wrapping_sub(d) }; b[3] = (l2 >> 8) as u8; b[4] = l2 as u8; }
            2 => { if b.len() > 9 { let i = 6 + r.below(3) as usize; b[i] = b[i].wrapping_add(r.range(1, 3) as u8); } }
            3 => { let i = r.below(b.len() as u64) as usize; b[i] ^= 1 << r.below(8); }
            4 => { b[0] = *r.pick(&[0x14u8, 0x15, 0x17, 0x18, 0x16, 0x19, 0x00]); }
            5 => { let k = r.below(5) as usize; b.extend(r.bytes(k)); }
            6 => { if b.len() > 48 { let i = 43 + r.below((b.len() - 43) as u64) as usize; b[i] = b[i].wrapping_add(1); } }
            7 => { if b.len() > 6 { b[5] = *r.pick(&[0u8, 2, 4, 11, 13, 22, 99]); } }
            _ => { let i = r.below(b.len() as u64) as usize; let k = r.range(1, 4) as usize; for j in i..(i + k).min(b.len()) { b[j] = r.next() as u8; } }
        }
        push_r(out, &b);
    }
}

/// a ClientHello whose extension list contains one extension of a known type with a damaged body
fn damaged_extension(r: &mut Rng, out: &mut Vec<String>) {
    let mut h = gen_hello(r, &SMALL);
    let t = *r.pick(&[0u16, 16, 43, 13, 10, 11, 1, 15, 22, 23, 28, 42, 45, 48, 49, 13172, 0xff01, 0xffce, 5, 18]);
    let (_, good) = gen_ext(r, t);
    let mut body = encode_body(&good);
    match r.below(6) {
        0 => { body.pop(); }
        1 => { body.push(r.next() as u8); }
        2 => { if !body.is_empty() { let i = r.below(body.len().min(3) as u64) as usize; body[i] = body[i].wrapping_add(r.range(1, 3) as u8); } }
        3 => { let n = r.below(4) as usize; body = r.bytes(n); }
        4 => { body.clear(); }
        _ => { if body.len() >= 2 { body[1] = body[1].wrapping_sub(1); } }
    }
    let p = r.below(h.exts.len() as u64 + 1) as usize;
    h.exts.insert(p, (t, Body::Raw(body)));
    push_r(out, &encode(&h));
}

fn gen(r: &mut Rng, tier: &Tier, out: &mut Vec<String>) {
    // corpus: the ClientHello records of the two TLS captures shipped with the repository
    for f in ["/repo/pcap/tls12.pcap", "/repo/pcap/tls-alpn-h2.pcap"] {
        for rec in pcap_client_hellos(f) {
            push_r(out, &rec);
            malformed(r, &rec, out, tier.scale(30, 300));
            for k in 0..rec.len() { if k % tier.scale(23, 3) == 0 { push_r(out, &rec[..k]); } }
        }
    }
    // structured: small hellos, each with a few permuted / GREASE-injected variants
    for _ in 0..tier.scale(1500, 12000) {
        let h = gen_hello(r, &SMALL);
        let a = encode(&h);
        push_r(out, &a);
        for _ in 0..2 { let v = variant(r, &h); out.push(format!("V {} {}", hex(&a), hex(&encode(&v)))); }
    }
    // structured: up to 120 ciphers / extensions, duplicates allowed
    for _ in 0..tier.scale(300, 2500) {
        let h = gen_hello(r, &LARGE);
        if encode_ch_body(&h).len() < 16000 { push_r(out, &encode(&h)); }
    }
    // exhaustive-small: every legacy version of the table x every supported_versions shape x ALPN shape
    let alpns: Vec<Option<Vec<u8>>> = vec![None, Some(vec![]), Some(b"h".to_vec()), Some(b"h2".to_vec()), Some(b"http/1.1".to_vec()),
        Some(vec![0xab]), Some(vec![0xab, 0xcd]), Some(vec![0x30, 0xab]), Some(vec![0x30, 0x31, 0xab, 0xcd]), Some(vec![0x30, 0xab, 0xcd, 0x31]),
        Some("\u{e9}".as_bytes().to_vec()), Some("a\u{e9}".as_bytes().to_vec()), Some("\u{e9}a".as_bytes().to_vec()), Some(b"-".to_vec()), Some(b"a-".to_vec()), Some(b"0".to_vec())];
    let svs: Vec<Option<Vec<u16>>> = vec![None, Some(vec![]), Some(vec![0x0a0a]), Some(vec![0x0303]), Some(vec![0x0304, 0x0303]), Some(vec![0x1a1a, 0x0304]),
        Some(vec![0x0302, 0x0a0a, 0x0301]), Some(vec![0x0002]), Some(vec![0x0305]), Some(vec![0xfeff]), Some(vec![0x0300, 0x0304, 0x0301])];
    for &ver in &[0x0300u16, 0x0301, 0x0302, 0x0303, 0x0304, 0x0002, 0x0305, 0x0000, 0xfeff, 0xfefd, 0xfefc, 0xffff] {
        for sv in &svs {
            for (ai, al) in alpns.iter().enumerate() {
                if !tier.thorough && (ai + (ver as usize)) % 3 != 0 { continue; }
                let mut exts = vec![];
                if ai % 2 == 0 { exts.push((0u16, Body::Sni(vec![(0, b"example.com".to_vec())]))); }
                if let Some(a) = al { exts.push((16u16, Body::Alpn(vec![a.clone(), b"zz".to_vec()]))); }
                if let Some(v) = sv { exts.push((43u16, Body::Versions(v.clone()))); }
                let h = Hello { rec_version: 0x0301, version: ver, random: vec![7; 32], sid: vec![], ciphers: vec![0x1301, 0x0a0a, 0xc02f], comp: vec![0], exts, omit_ext_block: false };
                push_r(out, &encode(&h));
            }
        }
    }
    // exhaustive-small: cipher / extension counts around the two-digit saturation, GREASE not counted
    for n in [0usize, 1, 9, 10, 98, 99, 100, 101, 120] {
        for g in [0usize, 1, 3] {
            let mut ciphers: Vec<u16> = (0..n).map(|i| 0x0100 + (i as u16 * 7) % 0x5000).collect();
            for k in 0..g { ciphers.insert((k * 5).min(ciphers.len()), GREASE[k * 3]); }
            let mut exts: Vec<(u16, Body)> = (0..n).map(|i| (0x4000 + i as u16, Body::Raw(vec![]))).collect();
            for k in 0..g { exts.insert((k * 7).min(exts.len()), (GREASE[k * 2 + 1], Body::Raw(vec![0]))); }
            let h = Hello { rec_version: 0x0303, version: 0x0303, random: vec![1; 32], sid: vec![2; 32], ciphers, comp: vec![0], exts, omit_ext_block: n % 2 == 0 };
            push_r(out, &encode(&h));
        }
    }
    // counts beyond one byte: 256..520 cipher suites and, separately, 256..400 extensions, with GREASE sprinkled in so
    // that the number left after stripping GREASE lands on both sides of 256 (a count narrowed to u8 before the
    // clamp prints n mod 256: 256 -> "00", 261 -> "05", 300 -> "44")
    {
        let mut big: Vec<(usize, usize, usize, usize)> = vec![]; // (non-GREASE ciphers, GREASE ciphers, non-GREASE exts, GREASE exts)
        for &n in &[255usize, 256, 257, 261, 300, 354, 512, 520] { big.push((n, 0, 3, 0)); }
        for &n in &[254usize, 256, 299] { big.push((n, 3, 2, 1)); }
        for &n in &[255usize, 256, 257, 261, 300, 340, 400] { big.push((5, 1, n, 0)); }
        for &n in &[254usize, 256, 290] { big.push((4, 0, n, 3)); }
        big.push((256, 2, 256, 2)); big.push((300, 0, 261, 0));
        for _ in 0..tier.scale(6, 120) {
            if r.chance(1, 2) { big.push((r.range(250, 520) as usize, r.below(4) as usize, r.below(12) as usize, r.below(2) as usize)); }
            else { big.push((r.below(12) as usize, r.below(2) as usize, r.range(250, 400) as usize, r.below(4) as usize)); }
        }
        if tier.thorough { for n in 250..=360usize { big.push((n, n % 3, 1, 0)); big.push((2, 0, n, n % 4)); } }
        for (nc, gc, ne, ge) in big {
            let mut ciphers: Vec<u16> = (0..nc).map(|i| 0x0100 + ((i as u16).wrapping_mul(37) % 0x7000)).collect();
            for _ in 0..gc { let p = r.below(ciphers.len() as u64 + 1) as usize; ciphers.insert(p, *r.pick(&GREASE)); }
            let mut exts: Vec<(u16, Body)> = (0..ne).map(|i| (0x4000 + i as u16, Body::Raw(if i % 7 == 0 { vec![i as u8] } else { vec![] }))).collect();
            if ne > 0 && r.chance(1, 2) { exts.insert(r.below(ne as u64) as usize, (0, Body::Sni(vec![(0, b"many.example".to_vec())]))); }
            if ne > 0 && r.chance(1, 2) { exts.insert(r.below(ne as u64) as usize, (16, Body::Alpn(vec![b"h2".to_vec()]))); }
            if ne > 0 && r.chance(1, 2) { exts.insert(r.below(ne as u64) as usize, (13, Body::SigAlgs(vec![0x0403, 0x0804]))); }
            for _ in 0..ge { let p = r.below(exts.len() as u64 + 1) as usize; exts.insert(p, (*r.pick(&GREASE), Body::Raw(vec![]))); }
            let h = Hello { rec_version: 0x0301, version: 0x0303, random: r.bytes(32), sid: vec![], ciphers, comp: vec![0], exts, omit_ext_block: false };
            let a = encode(&h);
            push_r(out, &a);
            if r.chance(1, 3) { let v = variant(r, &h); out.push(format!("V {} {}", hex(&a), hex(&encode(&v)))); }
        }
    }
    // malformed: truncations, length lies, bit flips, foreign record / handshake types
    for _ in 0..tier.scale(60, 600) {
        let h = gen_hello(r, &SMALL);
        let a = encode(&h);
        malformed(r, &a, out, 10);
        if a.len() < 200 && r.chance(1, 4) { for k in 0..a.len() { push_r(out, &a[..k]); } }
    }
    for _ in 0..tier.scale(400, 4000) { damaged_extension(r, out); }
    // records that hold other handshake messages, several messages, other record types
    for _ in 0..tier.scale(400, 4000) {
        let mut payload = vec![];
        for _ in 0..r.range(1, 3) {
            if r.chance(1, 3) { payload.extend(handshake(1, &encode_ch_body(&gen_hello(r, &SMALL)))); } else { payload.extend(other_message(r)); }
        }
        let rt = if r.chance(5, 6) { 0x16 } else { *r.pick(&[0x14u8, 0x15, 0x17, 0x18]) };
        push_r(out, &record(rt, 0x0303, &payload));
    }
    for rt in [0x14u8, 0x15, 0x17, 0x18, 0x13, 0x19] {
        for body in [vec![], vec![1], vec![1, 1, 2], vec![2, 40], vec![1, 0, 0], vec![1, 0, 1, 9], vec![1, 0, 2, 9], vec![0; 20]] {
            push_r(out, &record(rt, 0x0303, &body));
        }
    }
    // record length around tls-parser's MAX_RECORD_LEN (16640)
    for n in [16000usize, 16635, 16636, 16637, 16700] {
        let h = Hello { rec_version: 0x0303, version: 0x0303, random: vec![3; 32], sid: vec![], ciphers: vec![0x1301], comp: vec![0],
                        exts: vec![(21, Body::Raw(vec![0; n - 60])), (0, Body::Sni(vec![(0, b"a.b".to_vec())]))], omit_ext_block: false };
        push_r(out, &encode(&h));
    }
}

fn main() { main_cli(gen, run) }
