//! ClientHello ASTs, their wire encoding and seeded generators (shared by the C04 and C08 harnesses).
//! The AST mirrors `hello` of coq/Spec/Ja4Spec.v; `encode` mirrors `encode_hello`.
use hnv_common::Rng;

#[derive(Clone, Debug, PartialEq)]
pub enum Body {
    Sni(Vec<(u8, Vec<u8>)>),
    Alpn(Vec<Vec<u8>>),
    Versions(Vec<u16>),
    SigAlgs(Vec<u16>),
    Groups(Vec<u16>),
    Formats(Vec<u8>),
    Raw(Vec<u8>),
}

#[derive(Clone, Debug)]
pub struct Hello {
    pub rec_version: u16,
    pub version: u16,
    pub random: Vec<u8>,
    pub sid: Vec<u8>,
    pub ciphers: Vec<u16>,
    pub comp: Vec<u8>,
    pub exts: Vec<(u16, Body)>,
    /// leave the extensions block out altogether (only honoured when `exts` is empty)
    pub omit_ext_block: bool,
}

pub const GREASE: [u16; 16] = [
    0x0a0a, 0x1a1a, 0x2a2a, 0x3a3a, 0x4a4a, 0x5a5a, 0x6a6a, 0x7a7a, 0x8a8a, 0x9a9a, 0xaaaa, 0xbaba, 0xcaca, 0xdada,
    0xeaea, 0xfafa,
];
pub fn is_grease(v: u16) -> bool { GREASE.contains(&v) }

fn p16(out: &mut Vec<u8>, v: usize) { out.push((v >> 8) as u8); out.push(v as u8); }
fn u16s(l: &[u16]) -> Vec<u8> { let mut o = vec![]; for &x in l { p16(&mut o, x as usize); } o }

pub fn encode_body(b: &Body) -> Vec<u8> {
    let mut o = vec![];
    match b {
        Body::Sni(names) => {
            let mut l = vec![];
            for (t, n) in names { l.push(*t); p16(&mut l, n.len()); l.extend_from_slice(n); }
            p16(&mut o, l.len()); o.extend(l);
        }
        Body::Alpn(ps) => {
            let mut l = vec![];
            for p in ps { l.push(p.len() as u8); l.extend_from_slice(p); }
            p16(&mut o, l.len()); o.extend(l);
        }
        Body::Versions(vs) => { o.push((vs.len() * 2) as u8); o.extend(u16s(vs)); }
        Body::SigAlgs(l) | Body::Groups(l) => { p16(&mut o, l.len() * 2); o.extend(u16s(l)); }
        Body::Formats(f) => { o.push(f.len() as u8); o.extend_from_slice(f); }
        Body::Raw(r) => o.extend_from_slice(r),
    }
    o
}
pub fn encode_exts(exts: &[(u16, Body)]) -> Vec<u8> {
    let mut o = vec![];
    for (t, b) in exts { let e = encode_body(b); p16(&mut o, *t as usize); p16(&mut o, e.len()); o.extend(e); }
    o
}
/// ClientHello body (what follows the 4-byte handshake header)
pub fn encode_ch_body(h: &Hello) -> Vec<u8> {
    let mut b = vec![];
    p16(&mut b, h.version as usize);
    b.extend_from_slice(&h.random);
    b.push(h.sid.len() as u8); b.extend_from_slice(&h.sid);
    p16(&mut b, h.ciphers.len() * 2); b.extend(u16s(&h.ciphers));
    b.push(h.comp.len() as u8); b.extend_from_slice(&h.comp);
    if !(h.exts.is_empty() && h.omit_ext_block) {
        let e = encode_exts(&h.exts);
        p16(&mut b, e.len()); b.extend(e);
    }
    b
}
pub fn handshake(ht: u8, body: &[u8]) -> Vec<u8> {
    let mut m = vec![ht, (body.len() >> 16) as u8, (body.len() >> 8) as u8, body.len() as u8];
    m.extend_from_slice(body);
    m
}
pub fn record(rt: u8, ver: u16, payload: &[u8]) -> Vec<u8> {
    let mut r = vec![rt]; p16(&mut r, ver as usize); p16(&mut r, payload.len()); r.extend_from_slice(payload);
    r
}
pub fn encode(h: &Hello) -> Vec<u8> { record(0x16, h.rec_version, &handshake(1, &encode_ch_body(h))) }

// ---------------------------------------------------------------- generators
const REAL_CIPHERS: [u16; 24] = [
    0x1301, 0x1302, 0x1303, 0xc02b, 0xc02f, 0xc02c, 0xc030, 0xcca9, 0xcca8, 0xc013, 0xc014, 0x009c, 0x009d, 0x002f,
    0x0035, 0x000a, 0x00ff, 0xc009, 0xc00a, 0x0033, 0x0039, 0x0005, 0x0004, 0x5600,
];
const VERSIONS: [u16; 14] =
    [0x0300, 0x0301, 0x0302, 0x0303, 0x0304, 0x0303, 0x0303, 0x0002, 0x0305, 0x0000, 0xfeff, 0xfefd, 0x7f12, 0x0200];
const SIGALGS: [u16; 10] = [0x0403, 0x0804, 0x0401, 0x0503, 0x0805, 0x0501, 0x0806, 0x0601, 0x0201, 0x0203];
const GROUPS: [u16; 6] = [0x001d, 0x0017, 0x0018, 0x0019, 0x0100, 0x11ec];

fn some_u16(r: &mut Rng, pool: &[u16]) -> u16 {
    match r.below(10) { 0 => r.next() as u16, 1 => *r.pick(&GREASE), _ => *r.pick(pool) }
}
fn u16_list(r: &mut Rng, pool: &[u16], max: u64) -> Vec<u16> {
    let n = r.below(max + 1);
    (0..n).map(|_| some_u16(r, pool)).collect()
}

pub fn gen_alpn_name(r: &mut Rng, clean: bool) -> Vec<u8> {
    if clean {
        return r.pick(&[&b"h2"[..], b"http/1.1", b"h3", b"spdy/3.1", b"acme-tls/1", b"dot", b"imap", b"coap", b"h2c", b"ftp", b"stun.turn", b"xmpp-client", b"", b"hq-29"]).to_vec();
    }
    match r.below(14) {
        0 => b"h2".to_vec(),
        1 => b"http/1.1".to_vec(),
        2 => b"h".to_vec(),
        3 => b"0".to_vec(),
        4 => vec![],
        5 => "\u{e9}".as_bytes().to_vec(),                 // one two-byte character
        6 => "h\u{e9}".as_bytes().to_vec(),
        7 => "\u{e9}2".as_bytes().to_vec(),
        8 => "\u{20ac}\u{1f600}".as_bytes().to_vec(),       // 3- and 4-byte characters
        9 => vec![0xab],                                    // not UTF-8
        10 => vec![0x30, 0xab, 0xcd, 0x31],
        11 => vec![b'h', 0xff, b'2'],
        12 if r.chance(1, 2) => r.pick(&[&b"\r\n"[..], b" h", b"a\tb", b"h ", b"\x00\x7f", b"||"]).to_vec(),
        12 => { let n = r.range(1, 6) as usize; r.bytes(n) }
        _ => { let n = r.range(1, 9) as usize; (0..n).map(|_| *r.pick(b"abcxyzABZ019-/._ h2")).collect() }
    }
}
pub fn gen_host(r: &mut Rng, clean: bool) -> Vec<u8> {
    match if clean { 7 } else { r.below(8) } {
        0 => vec![],
        1 => "m\u{fc}nchen.de".as_bytes().to_vec(),
        2 => vec![0xff, 0xfe, b'a'],
        3 => { let n = r.range(1, 5) as usize; r.bytes(n) }
        _ => { let n = r.range(1, 20) as usize; (0..n).map(|_| *r.pick(b"abcdefghijklmnopqrstuvwxyz0123456789-.")).collect() }
    }
}

/// a structured extension with a body its tls-parser content parser accepts
pub fn gen_ext(r: &mut Rng, t: u16) -> (u16, Body) { gen_ext_c(r, t, false) }
pub fn gen_ext_c(r: &mut Rng, t: u16, clean: bool) -> (u16, Body) {
    let body = match t {
        0 => {
            let n = if clean { *r.pick(&[1u64, 1, 1, 2]) } else { match r.below(10) { 0 => 0, 1 => 2, _ => 1 } };
            Body::Sni((0..n).map(|_| (if r.chance(1, 8) { r.next() as u8 } else { 0 }, gen_host(r, clean))).collect())
        }
        16 => { let n = match r.below(8) { 0 => 0, 1 => 1, 2 => 3, _ => 2 }; Body::Alpn((0..n).map(|_| gen_alpn_name(r, clean)).collect()) }
        43 if clean => {
            let mut v: Vec<u16> = match r.below(6) { 0 => vec![0x0304], 1 => vec![0x0304, 0x0303], 2 => vec![0x0303], 3 => vec![0x0303, 0x0302, 0x0301], 4 => vec![0x0304, 0x0303, 0x0302, 0x0301], _ => vec![0x7f1c, 0x0304, 0x0303] };
            if r.chance(1, 2) { let p = r.below(v.len() as u64 + 1) as usize; v.insert(p, *r.pick(&GREASE)); }
            Body::Versions(v)
        }
        43 => {
            let v = match r.below(12) {
                0 => vec![],
                1 => vec![*r.pick(&GREASE)],
                2 => vec![*r.pick(&GREASE), *r.pick(&GREASE)],
                3 => vec![0x0303],
                4 => vec![*r.pick(&GREASE), 0x0304, 0x0303],
                5 => vec![0x0303, 0x0304],
                6 => vec![0x0002],
                7 => vec![0x0305, 0x0301],
                8 => vec![0xfefd, *r.pick(&GREASE)],
                _ => u16_list(r, &VERSIONS, 5),
            };
            Body::Versions(v)
        }
        13 => Body::SigAlgs(u16_list(r, &SIGALGS, 12)),
        10 => Body::Groups(u16_list(r, &GROUPS, 8)),
        11 => { let n = r.below(4) as usize; Body::Formats(r.bytes(n).iter().map(|b| b % 3).collect()) }
        1 | 15 => Body::Raw(vec![r.range(1, 4) as u8]),
        22 | 23 | 49 | 13172 => Body::Raw(vec![]),
        28 => Body::Raw(vec![0x40, 0x01]),
        42 => Body::Raw(if r.chance(1, 3) { r.bytes(4) } else { vec![] }),
        45 => { let n = r.range(1, 2) as usize; let mut b = vec![n as u8]; b.extend((0..n).map(|i| i as u8)); Body::Raw(b) }
        48 => Body::Raw(vec![0, 0]),
        0xff01 => { let n = r.below(3) as usize; let mut b = vec![n as u8]; b.extend(r.bytes(n)); Body::Raw(b) }
        0xffce => { let mut b = vec![0x13, 0x01, 0x00, 0x1d]; for _ in 0..3 { let n = r.below(4) as usize; p16(&mut b, n); b.extend(r.bytes(n)); } Body::Raw(b) }
        _ => { let n = match r.below(6) { 0 => 0, 1 => r.below(40), _ => r.below(8) } as usize; Body::Raw(r.bytes(n)) }
    };
    (t, body)
}

const KNOWN_TYPES: [u16; 32] = [
    0, 16, 43, 13, 10, 11, 0, 16, 43, 13, 10, 1, 5, 15, 18, 21, 22, 23, 28, 35, 40, 41, 42, 44, 45, 48, 49, 51, 13172,
    0xff01, 0xffce, 17,
];

pub struct Shape { pub max_ciphers: u64, pub max_exts: u64, pub allow_dups: bool, pub pseudo_grease: bool }
pub const SMALL: Shape = Shape { max_ciphers: 12, max_exts: 10, allow_dups: false, pseudo_grease: true };
pub const LARGE: Shape = Shape { max_ciphers: 120, max_exts: 120, allow_dups: true, pseudo_grease: true };

pub fn gen_hello(r: &mut Rng, sh: &Shape) -> Hello {
    let clean = r.chance(2, 3);
    let nc = match r.below(8) { 0 => 0, 1 => 1, 2 => r.range(97, sh.max_ciphers.max(97)).min(sh.max_ciphers), _ => r.below(sh.max_ciphers.min(24) + 1) };
    let mut ciphers: Vec<u16> = (0..nc).map(|_| if r.chance(1, 12) { r.next() as u16 } else { *r.pick(&REAL_CIPHERS) }).collect();
    // GREASE anywhere, any subset
    let ng = match r.below(4) { 0 => 0, 1 => 1, _ => r.below(4) };
    for _ in 0..ng { let p = r.below(ciphers.len() as u64 + 1) as usize; ciphers.insert(p, *r.pick(&GREASE)); }
    let ne = match r.below(8) { 0 => 0, 1 => 1, 2 => r.range(95, sh.max_exts.max(95)).min(sh.max_exts), _ => r.below(sh.max_exts.min(18) + 1) };
    let mut exts: Vec<(u16, Body)> = vec![];
    let mut used: Vec<u16> = vec![];
    let mut guard = 0;
    while (exts.len() as u64) < ne && guard < 1000 {
        guard += 1;
        let t = match r.below(10) {
            0 => *r.pick(&GREASE),
            1 => { let t = r.next() as u16; if clean && (t & 0x0f0f) == 0x0a0a && !is_grease(t) { 0x5555 } else { t } } // unknown type
            2 if sh.pseudo_grease && !clean && r.chance(1, 3) => *r.pick(&[0x1a2au16, 0x0a1a, 0x3a0a, 0xfa0a]),
            2 => 0x4000 + (r.below(0x4000) as u16),
            _ => *r.pick(&KNOWN_TYPES),
        };
        if !sh.allow_dups && used.contains(&t) { continue; }
        if sh.allow_dups && used.contains(&t) && !r.chance(1, 6) { continue; }
        used.push(t);
        if clean && (t == 48 || t == 0xffce) { continue; }
        exts.push(gen_ext_c(r, t, clean));
    }
    let sidlen = *r.pick(&[0u64, 0, 32, 32, 1, 16, 31]);
    Hello {
        rec_version: if r.chance(1, 6) { *r.pick(&VERSIONS) } else { *r.pick(&[0x0301u16, 0x0303]) },
        version: if clean { *r.pick(&[0x0303u16, 0x0303, 0x0303, 0x0301, 0x0302, 0x0300, 0x0304, 0x0305, 0x0000, 0x0403]) } else if r.chance(1, 2) { 0x0303 } else { *r.pick(&VERSIONS) },
        random: r.bytes(32),
        sid: r.bytes(sidlen as usize),
        ciphers,
        comp: match r.below(6) { 0 => vec![], 1 => vec![0, 1], 2 => { let n = r.below(5) as usize; r.bytes(n) } _ => vec![0] },
        exts,
        omit_ext_block: r.chance(1, 2),
    }
}

/// shuffle ciphers and extensions, sprinkle GREASE into ciphers / extensions / sigalgs / versions
pub fn variant(r: &mut Rng, h: &Hello) -> Hello {
    let mut v = h.clone();
    if r.chance(3, 4) { r.shuffle(&mut v.ciphers); }
    if r.chance(3, 4) { r.shuffle(&mut v.exts); }
    for _ in 0..r.below(3) { let p = r.below(v.ciphers.len() as u64 + 1) as usize; v.ciphers.insert(p, *r.pick(&GREASE)); }
    for _ in 0..r.below(3) {
        let p = r.below(v.exts.len() as u64 + 1) as usize;
        let n = r.below(5) as usize;
        v.exts.insert(p, (*r.pick(&GREASE), Body::Raw(r.bytes(n))));
    }
    // drop GREASE that was there
    if r.chance(1, 3) { v.ciphers.retain(|c| !is_grease(*c)); }
    if r.chance(1, 3) { v.exts.retain(|(t, _)| !is_grease(*t)); }
    for (_, b) in v.exts.iter_mut() {
        match b {
            Body::SigAlgs(l) => { if r.chance(1, 2) { let p = r.below(l.len() as u64 + 1) as usize; l.insert(p, *r.pick(&GREASE)); } }
            Body::Versions(l) => { if !l.is_empty() && l.len() < 100 && r.chance(1, 2) { let p = r.below(l.len() as u64 + 1) as usize; l.insert(p, *r.pick(&GREASE)); } }
            _ => {}
        }
    }
    v.random = r.bytes(32);
    if v.exts.is_empty() { v.omit_ext_block = r.chance(1, 2); }
    v
}

/// ClientHello records found in a pcap file of /repo/pcap (Ethernet or BSD loopback link type, IPv4/IPv6, TCP);
/// segments of a flow are concatenated in file order until the record is complete.
pub fn pcap_client_hellos(path: &str) -> Vec<Vec<u8>> {
    use pcap_file::pcap::PcapReader;
    let mut out = vec![];
    let f = match std::fs::File::open(path) { Ok(f) => f, Err(_) => return out };
    let mut rd = match PcapReader::new(f) { Ok(r) => r, Err(_) => return out };
    let lt: u32 = rd.header().datalink.into();
    let mut flows: Vec<((Vec<u8>, u16, u16), Vec<u8>)> = vec![];
    while let Some(Ok(p)) = rd.next_packet() {
        let d: &[u8] = &p.data;
        let ip = match lt {
            1 => { if d.len() < 14 { continue; } &d[14..] }
            0 => { if d.len() < 4 { continue; } &d[4..] }
            101 | 12 | 228 | 229 => d,
            _ => continue,
        };
        if ip.is_empty() { continue; }
        let (tcp, addrs) = match ip[0] >> 4 {
            4 => { let ihl = ((ip[0] & 15) as usize) * 4; if ip.len() < ihl.max(20) || ip[9] != 6 { continue; } (&ip[ihl..], ip[12..20].to_vec()) }
            6 => { if ip.len() < 40 || ip[6] != 6 { continue; } (&ip[40..], ip[8..40].to_vec()) }
            _ => continue,
        };
        if tcp.len() < 20 { continue; }
        let off = ((tcp[12] >> 4) as usize) * 4;
        if tcp.len() <= off { continue; }
        let payload = &tcp[off..];
        let key = (addrs, u16::from_be_bytes([tcp[0], tcp[1]]), u16::from_be_bytes([tcp[2], tcp[3]]));
        if let Some(e) = flows.iter_mut().find(|e| e.0 == key) {
            if !e.1.is_empty() { e.1.extend_from_slice(payload); }
        } else if payload.len() >= 6 && payload[0] == 0x16 && payload[5] == 1 {
            flows.push((key.clone(), payload.to_vec()));
        }
        if let Some(e) = flows.iter_mut().find(|e| e.0 == key) {
            if e.1.len() >= 5 {
                let need = 5 + u16::from_be_bytes([e.1[3], e.1[4]]) as usize;
                if e.1.len() >= need { out.push(e.1[..need].to_vec()); e.1.clear(); }
            }
        }
    }
    out
}
