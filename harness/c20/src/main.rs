//! C20 harness.  A case is a packet trace plus the unified analyzer's configuration.  `gen` runs the
//! three *protocol* analyzers of /repo (per-packet public functions, with and without matcher) over
//! the trace and embeds their per-packet results in the case line; `run` runs the *unified* analyzer
//! (HuginnNet::analyze_tcp) over the same trace.  The model (coq/Model/Unified.v) composes the embedded
//! protocol results the way process.rs/lib.rs do; the spec is the property's union/mask rule.
//!
//! line:  <t><h><l><m><d> N <tcp-res> <http-res> <tls-res> ... F <frame hex> ...
//!   res   := E | group,group,...            (E: the protocol analyzer returned an error for the packet)
//!   group := - | <sig hex>~<match with matcher>~<match without matcher>
//!   match := X (group has no match part) | D | N | M<hex>   optionally followed by +<diagnosis hex>
//! kind K (concrete composition, HTTP disabled):  <t>0<l><m><d> K <cap> <t ms>:<frame hex> ...
//!   MODEL = coq/Model/Unified.v unified_run over the packet-level TCP analyzer model and the stateless TLS path
//!   (coq/Model/AnalyzerReports.v); run = HuginnNet::analyze_tcp with the per-packet injected clock; own rendering:
//!   packets joined by ';', the 8 groups by '^': signature Display | <mtu>~<M+link hex|X|D> | uptime token | TLS token | '-'
//! (both kinds also run TCP Fast Open connections from cflow: the SYN carries the complete ClientHello / request)
//! kind U (fully concrete composition, HTTP may be enabled):  <t><h><l><m><d> U <cap> <t ms>:<frame hex> ...
//!   as K with the packet-level HTTP analyzer model as the HTTP stage (coq/Extract/EC20.v); the two HTTP groups print
//!   '-' | Q.<..> | R.<..> (HTTP/1, EC09 token) | Q2 <..> | R2 <..> (HTTP/2, coq/Model/HttpH2.v without lang)
//! result: one token per packet joined by ';' : 8 groups joined by ',' each '-' or <sig hex>~<match>
#[path = "../../c07/src/concrete.rs"]
#[allow(dead_code)]
mod concrete;
use hnv_common::pkt::*;
use hnv_common::*;
use huginn_net_db::{Database, MatchQualityType};
use pnet::packet::ipv4::Ipv4Packet;
use pnet::packet::ipv6::Ipv6Packet;
use std::fmt::Debug;
use ttl_cache::TtlCache;

const CLOCK: u64 = 1_700_000_000_000;

fn q(m: &MatchQualityType, who: &dyn Debug) -> String {
    match m {
        MatchQualityType::Matched(x) => format!("M{}", hex(format!("{:?}:{}", who, (x * 100.0).round() as u32).as_bytes())),
        MatchQualityType::NotMatched => "N".into(),
        MatchQualityType::Disabled => "D".into(),
    }
}
fn ends(s: &dyn Debug, d: &dyn Debug) -> String { format!("{:?}>{:?}", s, d) }

fn g_syn(o: &Option<huginn_net_tcp::output::SynTCPOutput>) -> Option<(String, String)> {
    o.as_ref().map(|x| (format!("{} {}", ends(&x.source, &x.destination), x.sig.matching_string()), q(&x.os_matched.quality, &x.os_matched.os)))
}
trait SigStr { fn matching_string(&self) -> String; }
impl SigStr for huginn_net_tcp::observable::ObservableTcp { fn matching_string(&self) -> String { format!("{:?}", self) } }

fn g_synack(o: &Option<huginn_net_tcp::output::SynAckTCPOutput>) -> Option<(String, String)> {
    o.as_ref().map(|x| (format!("{} {:?}", ends(&x.source, &x.destination), x.sig), q(&x.os_matched.quality, &x.os_matched.os)))
}
fn g_mtu(o: &Option<huginn_net_tcp::output::MTUOutput>) -> Option<(String, String)> {
    o.as_ref().map(|x| (format!("{} {}", ends(&x.source, &x.destination), x.mtu), q(&x.link.quality, &x.link.link)))
}
fn g_up(o: &Option<huginn_net_tcp::output::UptimeOutput>) -> Option<(String, String)> {
    o.as_ref().map(|x| (format!("{} {:?} {} {} {} {} {}", ends(&x.source, &x.destination), x.role, x.days, x.hours, x.min, x.up_mod_days, x.freq), "X".to_string()))
}
fn g_req(o: &Option<huginn_net_http::output::HttpRequestOutput>) -> Option<(String, String)> {
    o.as_ref().map(|x| (format!("{} {:?} {:?}", ends(&x.source, &x.destination), x.lang, x.sig),
        format!("{}+{}", q(&x.browser_matched.quality, &x.browser_matched.browser), hex(format!("{:?}", x.diagnosis).as_bytes()))))
}
fn g_resp(o: &Option<huginn_net_http::output::HttpResponseOutput>) -> Option<(String, String)> {
    o.as_ref().map(|x| (format!("{} {:?}", ends(&x.source, &x.destination), x.sig),
        format!("{}+{}", q(&x.web_server_matched.quality, &x.web_server_matched.web_server), hex(format!("{:?}", x.diagnosis).as_bytes()))))
}
fn g_tls(o: &Option<huginn_net_tls::output::TlsClientOutput>) -> Option<(String, String)> {
    o.as_ref().map(|x| (format!("{} {:?}", ends(&x.source, &x.destination), x.sig), "X".to_string()))
}

/// parsing time and similar run-dependent metadata never take part in a comparison
fn scrub(s: &str) -> String {
    let mut out = String::new();
    let mut rest = s;
    while let Some(i) = rest.find("parsing_time_ns: ") {
        out.push_str(&rest[..i]);
        out.push_str("parsing_time_ns: _");
        let tail = &rest[i + "parsing_time_ns: ".len()..];
        let j = tail.find(|c: char| !c.is_ascii_digit()).unwrap_or(tail.len());
        rest = &tail[j..];
    }
    out.push_str(rest);
    out
}

type G = Option<(String, String)>;

fn tcp_groups(frame: &[u8], tracker: &mut TtlCache<huginn_net_tcp::ConnectionKey, huginn_net_tcp::TcpTimestamp>, m: Option<&huginn_net_tcp::SignatureMatcher>) -> Option<Vec<G>> {
    use huginn_net_tcp::packet_parser::{parse_packet, IpPacket};
    let r = match parse_packet(frame) {
        IpPacket::Ipv4(p) => huginn_net_tcp::process::process_ipv4_packet(&p, tracker, m),
        IpPacket::Ipv6(p) => huginn_net_tcp::process::process_ipv6_packet(&p, tracker, m),
        IpPacket::None => return None,
    };
    r.ok().map(|x| vec![g_syn(&x.syn), g_synack(&x.syn_ack), g_mtu(&x.mtu), g_up(&x.client_uptime), g_up(&x.server_uptime)])
}
fn http_groups(frame: &[u8], flows: &mut TtlCache<huginn_net_http::http_process::FlowKey, huginn_net_http::http_process::TcpFlow>,
               procs: &huginn_net_http::http_process::HttpProcessors, m: Option<&huginn_net_http::SignatureMatcher>) -> Option<Vec<G>> {
    use huginn_net_http::packet_parser::{parse_packet, IpPacket};
    let r = match parse_packet(frame) {
        IpPacket::Ipv4(p) => huginn_net_http::process::process_ipv4_packet(&p, flows, procs, m),
        IpPacket::Ipv6(p) => huginn_net_http::process::process_ipv6_packet(&p, flows, procs, m),
        IpPacket::None => return None,
    };
    r.ok().map(|x| vec![g_req(&x.http_request), g_resp(&x.http_response)])
}
/// "the stateless TLS analyzer": process_tls_ipv4/ipv6 on the IP packet of the frame
fn tls_groups(frame: &[u8]) -> Option<Vec<G>> {
    use huginn_net_tls::packet_parser::{parse_packet, IpPacket};
    fn ends_of4(p: &Ipv4Packet) -> Option<(String, String)> {
        use pnet::packet::Packet;
        let t = pnet::packet::tcp::TcpPacket::new(p.payload())?;
        Some((format!("{}:{}", p.get_source(), t.get_source()), format!("{}:{}", p.get_destination(), t.get_destination())))
    }
    fn ends_of6(p: &Ipv6Packet) -> Option<(String, String)> {
        use pnet::packet::Packet;
        let t = pnet::packet::tcp::TcpPacket::new(p.payload())?;
        Some((format!("{}:{}", p.get_source(), t.get_source()), format!("{}:{}", p.get_destination(), t.get_destination())))
    }
    let (r, e) = match parse_packet(frame) {
        IpPacket::Ipv4(p) => (huginn_net_tls::process_tls_ipv4(&p), ends_of4(&p)),
        IpPacket::Ipv6(p) => (huginn_net_tls::process_tls_ipv6(&p), ends_of6(&p)),
        IpPacket::None => return None,
    };
    r.ok().map(|x| vec![x.tls_client.map(|sig| { let (s, d) = e.clone().unwrap_or_default(); (format!("IpPort {{ ip: {}, port: {} }}>IpPort {{ ip: {}, port: {} }} {:?}", s.rsplit_once(':').unwrap().0, s.rsplit_once(':').unwrap().1, d.rsplit_once(':').unwrap().0, d.rsplit_once(':').unwrap().1, sig), "X".to_string()) })])
}

fn enc_res(on: &Option<Vec<G>>, off: &Option<Vec<G>>) -> String {
    match (on, off) {
        (Some(a), Some(b)) if a.len() == b.len() => a.iter().zip(b.iter()).map(|(x, y)| match (x, y) {
            (Some((s, m)), Some((_, n))) => format!("{}~{}~{}", hex(scrub(s).as_bytes()), m, n),
            (None, None) => "-".to_string(),
            _ => "!presence-differs-with-matcher".to_string(),
        }).collect::<Vec<_>>().join(","),
        (None, None) => "E".to_string(),
        _ => "!error-differs-with-matcher".to_string(),
    }
}

fn embed(frames: &[Vec<u8>], db: &Database) -> String {
    huginn_net_tcp::uptime::verif_hooks::set_frozen_clock(Some(CLOCK));
    let tm = huginn_net_tcp::SignatureMatcher::new(db);
    let hm = huginn_net_http::SignatureMatcher::new(db);
    let mut tr_on = TtlCache::new(1000); let mut tr_off = TtlCache::new(1000);
    let mut fl_on = TtlCache::new(1000); let mut fl_off = TtlCache::new(1000);
    let pr_on = huginn_net_http::http_process::HttpProcessors::new();
    let pr_off = huginn_net_http::http_process::HttpProcessors::new();
    let mut out = Vec::new();
    for f in frames {
        let t = enc_res(&tcp_groups(f, &mut tr_on, Some(&tm)), &tcp_groups(f, &mut tr_off, None));
        let h = enc_res(&http_groups(f, &mut fl_on, &pr_on, Some(&hm)), &http_groups(f, &mut fl_off, &pr_off, None));
        let l = { let x = tls_groups(f); enc_res(&x, &x) };
        out.push(format!("{} {} {}", t, h, l));
    }
    out.join(" ")
}

fn unified_tokens(cfgbits: &str, frames: &[Vec<u8>], db: &Database) -> String {
    huginn_net_tcp::uptime::verif_hooks::set_frozen_clock(Some(CLOCK));
    let b: Vec<bool> = cfgbits.chars().map(|c| c == '1').collect();
    let cfg = huginn_net::AnalysisConfig { tcp_enabled: b[0], http_enabled: b[1], tls_enabled: b[2], matcher_enabled: b[3] };
    let mut a = match huginn_net::HuginnNet::new(if b[4] { Some(db) } else { None }, 1000, Some(cfg)) {
        Ok(a) => a,
        Err(_) => return "CTORERR".to_string(),
    };
    let mut toks = Vec::new();
    for f in frames {
        let r = a.analyze_tcp(f);
        let gs: Vec<G> = vec![g_syn(&r.tcp_syn), g_synack(&r.tcp_syn_ack), g_mtu(&r.tcp_mtu), g_up(&r.tcp_client_uptime), g_up(&r.tcp_server_uptime),
                              g_req(&r.http_request), g_resp(&r.http_response), g_tls(&r.tls_client)];
        toks.push(gs.iter().map(|g| match g { Some((s, m)) => format!("{}~{}", hex(scrub(s).as_bytes()), m), None => "-".to_string() }).collect::<Vec<_>>().join(","));
    }
    toks.join(";")
}

thread_local! { static DB: Database = Database::load_default().expect("db"); }

// ---- HTTP groups of kind U (HTTP/1: EC09 token; HTTP/2: coq/Model/H2Show.v show_req_obs_nl / show_resp) ----
fn escs(s: &[u8]) -> String {
    let mut o = String::new();
    for &b in s { if b.is_ascii_alphanumeric() || b == b'-' || b == b'.' || b == b'_' || b == b'/' { o.push(b as char) } else { o.push_str(&format!("%{:02x}", b)) } }
    o
}
fn escs_opt(s: &Option<String>) -> String { match s { Some(x) => escs(x.as_bytes()), None => "~".into() } }
fn h2_headers(hs: &[huginn_net_http::http_common::HttpHeader]) -> String {
    hs.iter().map(|h| format!("{}:{}:{}", h.position, escs(h.name.as_bytes()), escs_opt(&h.value))).collect::<Vec<_>>().join(",")
}
fn h1_headers(hs: &[huginn_net_http::http_common::HttpHeader]) -> String {
    hs.iter().map(|h| format!("{}={}", hex(h.name.as_bytes()), hex(h.value.as_deref().unwrap_or("").as_bytes()))).collect::<Vec<_>>().join(",")
}
fn h1ver(v: &huginn_net_http::http::Version) -> &'static str {
    use huginn_net_http::http::Version;
    match v { Version::V10 => "10", Version::V11 => "11", Version::V20 => "20", Version::V30 => "30", _ => "any" }
}
fn u_req_token(o: &huginn_net_http::ObservableHttpRequest) -> String {
    if o.matching.version == huginn_net_http::http::Version::V20 {
        format!("Q2 {} {} hdr={} cookies={} referer={} ua={} sig={}", escs(o.method.as_deref().unwrap_or("").as_bytes()), escs(o.uri.as_deref().unwrap_or("").as_bytes()),
            h2_headers(&o.headers),
            o.cookies.iter().map(|c| format!("{}:{}:{}", c.position, escs(c.name.as_bytes()), escs_opt(&c.value))).collect::<Vec<_>>().join(","),
            escs_opt(&o.referer), escs_opt(&o.user_agent), escs(o.matching.to_string().as_bytes()))
    } else {
        format!("Q.{}.{}.{}.{}", hex(o.method.as_deref().unwrap_or("").as_bytes()), hex(o.uri.as_deref().unwrap_or("").as_bytes()), h1ver(&o.matching.version), h1_headers(&o.headers))
    }
}
fn u_resp_token(o: &huginn_net_http::ObservableHttpResponse) -> String {
    if o.matching.version == huginn_net_http::http::Version::V20 {
        format!("R2 {} hdr={} sig={}", o.status_code.unwrap_or(0), h2_headers(&o.headers), escs(o.matching.to_string().as_bytes()))
    } else {
        format!("R.{}.{}.{}", h1ver(&o.matching.version), o.status_code.unwrap_or(0), h1_headers(&o.headers))
    }
}

fn k_tokens(cfgbits: &str, cap: usize, evs: &[(u64, Vec<u8>)], db: &Database) -> String {
    let b: Vec<bool> = cfgbits.chars().map(|c| c == '1').collect();
    let cfg = huginn_net::AnalysisConfig { tcp_enabled: b[0], http_enabled: b[1], tls_enabled: b[2], matcher_enabled: b[3] };
    let mut a = match huginn_net::HuginnNet::new(if b[4] { Some(db) } else { None }, cap, Some(cfg)) { Ok(a) => a, Err(_) => return "CTORERR".to_string() };
    let mut toks = Vec::new();
    for (t, f) in evs {
        cflow::set_clock(*t);
        let r = a.analyze_tcp(f);
        cflow::clear_clock();
        let link = |m: &huginn_net_tcp::output::MTUOutput| match (&m.link.quality, &m.link.link) {
            (MatchQualityType::Disabled, _) => "D".to_string(),
            (_, Some(l)) => format!("M+{}", hex(l.as_bytes())),
            _ => "X".to_string(),
        };
        let gs: Vec<String> = vec![
            r.tcp_syn.as_ref().map(|x| x.sig.matching.to_string()).unwrap_or_else(|| "-".into()),
            r.tcp_syn_ack.as_ref().map(|x| x.sig.matching.to_string()).unwrap_or_else(|| "-".into()),
            r.tcp_mtu.as_ref().map(|x| format!("{}~{}", x.mtu, link(x))).unwrap_or_else(|| "-".into()),
            r.tcp_client_uptime.as_ref().map(|x| concrete::up(x)).unwrap_or_else(|| "-".into()),
            r.tcp_server_uptime.as_ref().map(|x| concrete::up(x)).unwrap_or_else(|| "-".into()),
            r.http_request.as_ref().map(|x| u_req_token(&x.sig)).unwrap_or_else(|| "-".into()),
            r.http_response.as_ref().map(|x| u_resp_token(&x.sig)).unwrap_or_else(|| "-".into()),
            r.tls_client.as_ref().map(|x| concrete::tls_seq_token(x)).unwrap_or_else(|| "-".into()),
        ];
        toks.push(gs.join("^"));
    }
    toks.join(";")
}

fn run(line: &str) -> String {
    let toks: Vec<&str> = line.split(' ').collect();
    if toks[1] == "K" || toks[1] == "U" {
        let cap: usize = toks[2].parse().unwrap();
        let evs: Vec<(u64, Vec<u8>)> = toks[3..].iter().map(|t| { let (a, b) = t.split_once(':').unwrap(); (a.parse().unwrap(), unhex_or_dash(b)) }).collect();
        return DB.with(|db| k_tokens(toks[0], cap, &evs, db));
    }
    let fpos = toks.iter().position(|t| *t == "F").unwrap();
    let frames: Vec<Vec<u8>> = toks[fpos + 1..].iter().map(|h| unhex_or_dash(h)).collect();
    DB.with(|db| unified_tokens(toks[0], &frames, db))
}

// ---------------- trace generation ----------------
fn client_hello(r: &mut Rng) -> Vec<u8> {
    // minimal TLS 1.2 ClientHello with SNI + ALPN + supported_groups + sig algs
    let mut ext = Vec::new();
    let host = b"example.org";
    let mut sni = vec![0u8, 0]; let l = host.len() as u16;
    sni.extend_from_slice(&(l + 5).to_be_bytes()); sni.extend_from_slice(&(l + 3).to_be_bytes()); sni.push(0); sni.extend_from_slice(&l.to_be_bytes()); sni.extend_from_slice(host);
    ext.extend_from_slice(&sni);
    ext.extend_from_slice(&[0, 16, 0, 5, 0, 3, 2, b'h', b'2']);
    ext.extend_from_slice(&[0, 10, 0, 4, 0, 2, 0, 29]);
    ext.extend_from_slice(&[0, 13, 0, 4, 0, 2, 4, 3]);
    if r.chance(1, 2) { ext.extend_from_slice(&[0, 43, 0, 3, 2, 3, 4]); }
    let mut body = vec![3, 3]; body.extend_from_slice(&r.bytes(32)); body.push(0);
    let ciphers: Vec<u16> = vec![0x1301, 0x1302, 0xc02b, 0xc02f, 0x009c];
    body.extend_from_slice(&((ciphers.len() * 2) as u16).to_be_bytes());
    for c in &ciphers { body.extend_from_slice(&c.to_be_bytes()); }
    body.extend_from_slice(&[1, 0]);
    body.extend_from_slice(&(ext.len() as u16).to_be_bytes()); body.extend_from_slice(&ext);
    let mut hs = vec![1, 0]; hs.extend_from_slice(&(body.len() as u16).to_be_bytes()); hs.extend_from_slice(&body);
    let mut rec = vec![0x16, 3, 1]; rec.extend_from_slice(&(hs.len() as u16).to_be_bytes()); rec.extend_from_slice(&hs);
    rec
}

fn connection(r: &mut Rng, kind: u64, v6: bool) -> Vec<Vec<u8>> {
    let cport = 40000 + r.below(20000) as u16;
    let sport = match kind { 0 => 80, 1 => 443, _ => *r.pick(&[22u16, 8080, 25]) };
    let c4 = [10, 0, r.below(3) as u8, 1 + r.below(200) as u8]; let s4 = [93, 184, 216, 34];
    let mut c6 = [0u8; 16]; c6[0] = 0x20; c6[1] = 1; c6[15] = 1 + r.below(200) as u8; let mut s6 = [0u8; 16]; s6[0] = 0x20; s6[1] = 1; s6[15] = 2; s6[7] = 9;
    let isn_c = r.next() as u32 % 0x7000_0000; let isn_s = r.next() as u32 % 0x7000_0000;
    let ts0 = r.below(1_000_000) as u32;
    let mk = |from_client: bool, t: Tcp, ttl: u8| -> Vec<u8> {
        if v6 { let mut ip = if from_client { Ip6::new(c6, s6) } else { Ip6::new(s6, c6) }; ip.hop = ttl; ether6(&ip, &t) }
        else { let mut ip = if from_client { Ip4::new(c4, s4) } else { Ip4::new(s4, c4) }; ip.ttl = ttl; ether4(&ip, &t) }
    };
    let mut out = Vec::new();
    let mut syn = Tcp::new(cport, sport, SYN); syn.seq = isn_c; syn.window = *r.pick(&[65535u16, 29200, 64240, 8192]);
    let mss = *r.pick(&[1460u16, 1400, 1380]);
    syn.options = [opt_mss(mss), opt_sackok(), opt_ts(ts0, 0), opt_nop(), opt_ws(*r.pick(&[7u8, 8, 6]))].concat();
    out.push(mk(true, syn, *r.pick(&[64u8, 128, 57, 255])));
    let mut sa = Tcp::new(sport, cport, SYN | ACK); sa.seq = isn_s; sa.ack = isn_c.wrapping_add(1); sa.window = 28960;
    sa.options = [opt_mss(1460), opt_sackok(), opt_ts(ts0 / 2 + 7, ts0), opt_nop(), opt_ws(7)].concat();
    out.push(mk(false, sa, 52));
    let mut ack = Tcp::new(cport, sport, ACK); ack.seq = isn_c.wrapping_add(1); ack.ack = isn_s.wrapping_add(1);
    ack.options = [opt_nop(), opt_nop(), opt_ts(ts0 + 30, ts0 / 2 + 7)].concat();
    out.push(mk(true, ack, 64));
    match kind {
        0 => {
            let ua = *r.pick(&["curl/7.68.0", "Mozilla/5.0 (X11; Linux x86_64) AppleWebKit/537.36 (KHTML, like Gecko) Chrome/120.0 Safari/537.36", "Wget/1.20"]);
            let req = format!("GET /{} HTTP/1.1\r\nHost: example.org\r\nUser-Agent: {}\r\nAccept: */*\r\nAccept-Language: en-US,en;q=0.8\r\nConnection: keep-alive\r\n\r\n",
                              r.below(100), ua);
            // the request in two segments; the first one may be a packet the TCP analyzer rejects (illegal flag
            // combination, IP fragment) while the HTTP reassembler still consumes its payload
            let rb = req.into_bytes(); let cut = 1 + r.below(rb.len() as u64 - 1) as usize;
            let odd = r.below(4);
            let mut d1 = Tcp::new(cport, sport, if odd == 1 { PSH } else { PSH | ACK }); d1.seq = isn_c.wrapping_add(1); d1.ack = isn_s.wrapping_add(1); d1.payload = rb[..cut].to_vec();
            d1.options = [opt_nop(), opt_nop(), opt_ts(ts0 + 60, ts0 / 2 + 7)].concat();
            if v6 || odd != 2 { out.push(mk(true, d1, 64)); } else { let mut ip = Ip4::new(c4, s4); ip.mf = true; ip.df = false; out.push(ether4(&ip, &d1)); }
            let mut d = Tcp::new(cport, sport, PSH | ACK); d.seq = isn_c.wrapping_add(1 + cut as u32); d.ack = isn_s.wrapping_add(1); d.payload = rb[cut..].to_vec();
            d.options = [opt_nop(), opt_nop(), opt_ts(ts0 + 60, ts0 / 2 + 7)].concat();
            out.push(mk(true, d, 64));
            let resp = format!("HTTP/1.1 200 OK\r\nServer: {}\r\nContent-Type: text/html\r\nContent-Length: 5\r\n\r\nhello", r.pick(&["Apache/2.4.41 (Ubuntu)", "nginx/1.18.0"]));
            let mut e = Tcp::new(sport, cport, PSH | ACK); e.seq = isn_s.wrapping_add(1); e.ack = isn_c.wrapping_add(100); e.payload = resp.into_bytes();
            e.options = [opt_nop(), opt_nop(), opt_ts(ts0 / 2 + 57, ts0 + 60)].concat();
            out.push(mk(false, e, 52));
        }
        1 => {
            let mut d = Tcp::new(cport, sport, PSH | ACK); d.seq = isn_c.wrapping_add(1); d.ack = isn_s.wrapping_add(1); d.payload = client_hello(r);
            out.push(mk(true, d, 64));
        }
        _ => {
            let mut d = Tcp::new(cport, sport, PSH | ACK); d.seq = isn_c.wrapping_add(1); d.ack = isn_s.wrapping_add(1); d.payload = r.bytes(20);
            out.push(mk(true, d, 64));
        }
    }
    let mut fin = Tcp::new(cport, sport, FIN | ACK); fin.seq = isn_c.wrapping_add(500); fin.ack = isn_s.wrapping_add(1);
    out.push(mk(true, fin, 64));
    out
}

fn interleave(r: &mut Rng, conns: Vec<Vec<Vec<u8>>>) -> Vec<Vec<u8>> {
    let mut idx = vec![0usize; conns.len()];
    let mut out = Vec::new();
    loop {
        let live: Vec<usize> = (0..conns.len()).filter(|&i| idx[i] < conns[i].len()).collect();
        if live.is_empty() { break; }
        let i = *r.pick(&live);
        out.push(conns[i][idx[i]].clone()); idx[i] += 1;
    }
    out
}

fn junk(r: &mut Rng, base: &[Vec<u8>]) -> Vec<u8> {
    match r.below(5) {
        0 => { let n = r.below(60) as usize; r.bytes(n) }
        1 => { let f = r.pick(base).clone(); let n = r.below(f.len() as u64 + 1) as usize; f[..n].to_vec() }
        2 => { let mut f = r.pick(base).clone(); if f.len() > 23 { f[23] = 17; } f }            // UDP protocol number
        3 => { let mut f = r.pick(base).clone(); let i = r.below(f.len() as u64) as usize; f[i] ^= 1 << r.below(8); f }
        _ => { let mut f = r.pick(base).clone(); if f.len() > 14 { f[14] = 0x40 | r.below(16) as u8; } f } // IHL lie
    }
}

fn gen(r: &mut Rng, tier: &Tier, out: &mut Vec<String>) {
    let db = Database::load_default().expect("db");
    let mut traces: Vec<Vec<Vec<u8>>> = Vec::new();
    for p in ["macos_tcp_flags.pcap", "http-simple-get.pcap", "tls-alpn-h2.pcap", "tls12.pcap"] {
        traces.push(read_pcap(&format!("/repo/pcap/{}", p)));
    }
    for _ in 0..tier.scale(24, 400) {
        let n = 1 + r.below(3);
        let conns: Vec<Vec<Vec<u8>>> = (0..n).map(|_| { let k = r.below(3); let v6 = r.chance(1, 4); connection(r, k, v6) }).collect();
        let mut t = interleave(r, conns);
        if r.chance(1, 2) { for _ in 0..1 + r.below(3) { let j = junk(r, &t); let pos = r.below(t.len() as u64 + 1) as usize; t.insert(pos, j); } }
        traces.push(t);
    }
    // a few very short traces (also the ones re-evaluated inside Coq by vm_compute)
    for k in 0..3u64 { let c = connection(r, k, false); traces.push(c[..2].to_vec()); traces.push(vec![c[0].clone()]); }
    for (ti, t) in traces.iter().enumerate() {
        let emb = embed(t, &db);
        let fr: Vec<String> = t.iter().map(|f| hex_or_dash(f)).collect();
        // all 16 switch combinations x database present/absent on the bundled captures and a sample; a random combination elsewhere
        let all = ti < 6 || tier.thorough;
        for c in 0..32u32 {
            if !all && r.below(32) > 3 { continue; }
            let bits = format!("{}{}{}{}{}", c & 1, (c >> 1) & 1, (c >> 2) & 1, (c >> 3) & 1, (c >> 4) & 1);
            out.push(format!("{} N {} F {}", bits, emb, fr.join(" ")));
        }
    }
    // kind K: concrete composition (TCP analyzer model + stateless TLS path), HTTP disabled
    for case in 0..tier.scale(120, 1500) {
        let n = 1 + r.below(4) as usize;
        let mut conns: Vec<Vec<cflow::Frame>> = Vec::new();
        for j in 0..n {
            let ck = *r.pick(&[1u64, 1, 2, 0]);
            let sp = cflow::ConnSpec::new(ck, r.chance(1, 4), (case as u64 * 11 + j as u64 * 37) % 4000 + j as u64 * 6000);
            let t0 = 1_000_000 + r.below(1000);
            conns.push(cflow::connection(r, &sp, t0));
        }
        if case % 4 == 1 { let t0 = 1_000_000 + r.below(500); let v6 = r.chance(1, 3); conns.push(concrete::odd_ts_connection(r, v6, 300 + case as u64 % 100, t0)); }
        if case % 6 == 5 { for c in conns.iter_mut() { for (f, _) in c.iter_mut() { if r.chance(1, 4) { concrete::mutate(r, f); } } } }
        let mut tr: Vec<cflow::Frame> = cflow::interleave(r, &conns, case % 5 == 0).into_iter().map(|(_, f)| f).collect();
        if r.chance(1, 3) { let frames: Vec<Vec<u8>> = tr.iter().map(|(f, _)| f.clone()).collect(); let j = junk(r, &frames); let pos = r.below(tr.len() as u64 + 1) as usize; tr.insert(pos, (j, 1_000_500)); }
        let cfgbits = *r.pick(&["10111", "10111", "10111", "10101", "10101", "10100", "00111", "00101", "10011", "10001", "10110"]);
        let cap = if case % 8 == 3 { 1 + r.below(4) as usize } else { 1000 };
        let mut line = format!("{} K {}", cfgbits, cap);
        for (f, t) in &tr { line.push_str(&format!(" {}:{}", t, hex_or_dash(f))); }
        out.push(line);
    }
    // kind U: fully concrete composition incl. the HTTP stage (HTTP/1 exchanges and HTTP/2 connection starts)
    for case in 0..tier.scale(150, 1500) {
        let n = 1 + r.below(4) as usize;
        let mut conns: Vec<Vec<cflow::Frame>> = Vec::new();
        for j in 0..n {
            let ck = *r.pick(&[0u64, 3, 3, 1, 0, 2]);
            let sp = cflow::ConnSpec::new(ck, r.chance(1, 4), (case as u64 * 17 + j as u64 * 41) % 4000 + j as u64 * 6000);
            let t0 = 1_000_000 + r.below(1000);
            conns.push(cflow::connection(r, &sp, t0));
        }
        if case % 7 == 6 { for c in conns.iter_mut() { for (f, _) in c.iter_mut() { if r.chance(1, 5) { concrete::mutate_headers(r, f); } } } }
        let mut tr: Vec<cflow::Frame> = cflow::interleave(r, &conns, case % 5 == 0).into_iter().map(|(_, f)| f).collect();
        // junk that cannot put non-ASCII bytes into an HTTP/1 stream (the HTTP/1 recogniser's domain, see props/C07.json):
        // short random bytes (no room for IP + TCP), a truncated copy of a frame, a copy with the UDP protocol number
        if r.chance(1, 4) {
            let j = match r.below(3) {
                0 => { let n = r.below(34) as usize; r.bytes(n) }
                1 => { let f = tr[r.below(tr.len() as u64) as usize].0.clone(); let n = r.below(f.len() as u64 + 1) as usize; f[..n].to_vec() }
                _ => { let mut f = tr[r.below(tr.len() as u64) as usize].0.clone(); if f.len() > 23 && f[12] == 0x08 { f[23] = 17; } f }
            };
            let pos = r.below(tr.len() as u64 + 1) as usize; tr.insert(pos, (j, 1_000_500));
        }
        let cfgbits = *r.pick(&["11111", "11111", "01011", "01000", "11011", "01101", "11101", "11100", "01111", "10111"]);
        let cap = if case % 8 == 3 { 1 + r.below(4) as usize } else { 1000 };
        let mut line = format!("{} U {}", cfgbits, cap);
        for (f, t) in &tr { line.push_str(&format!(" {}:{}", t, hex_or_dash(f))); }
        out.push(line);
    }
    // kinds K and U with TCP Fast Open connections: the SYN itself carries a complete single-segment ClientHello (or the
    // whole HTTP request), IPv4 and IPv6, so the per-packet union demands the TLS / HTTP group on a SYN packet
    for case in 0..tier.scale(48, 600) {
        let u_kind = case % 2 == 1;
        let n = 1 + r.below(3) as usize;
        let mut conns: Vec<Vec<cflow::Frame>> = Vec::new();
        for j in 0..n {
            let tfo = j == 0 || r.chance(1, 3);
            let ck = if tfo { *r.pick(&[1u64, 1, 1, 0]) } else { *r.pick(&[1u64, 0, 2]) };
            let mut sp = cflow::ConnSpec::new(ck, (case / 2 + j) % 2 == 1, (case as u64 * 19 + j as u64 * 43) % 4000 + j as u64 * 6000);
            sp.tfo = tfo;
            if r.chance(1, 2) { sp.macs = Some(cflow::pick_macs(r)); }   // MAC first octets 0x45.., 0x6X, 1e 00, 00, ff
            let t0 = 1_000_000 + r.below(1000);
            conns.push(cflow::connection(r, &sp, t0));
        }
        let tr: Vec<cflow::Frame> = cflow::interleave(r, &conns, case % 5 == 0).into_iter().map(|(_, f)| f).collect();
        let cfgbits = if u_kind { *r.pick(&["11111", "11111", "01101", "01100", "11101", "00111", "00101", "10111"]) }
                      else { *r.pick(&["10111", "10101", "10100", "00111", "00101", "00100"]) };
        let mut line = format!("{} {} 1000", cfgbits, if u_kind { "U" } else { "K" });
        for (f, t) in &tr { line.push_str(&format!(" {}:{}", t, hex_or_dash(f))); }
        out.push(line);
    }
}

fn main() { main_cli(gen, run) }
