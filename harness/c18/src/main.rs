//! C18 harness.  Case grammar: coq/Extract/EC18.v.
//!  T1: `hash_source_ip` (+ the `% num_workers` of dispatch) / `hash_flow` of the three packet_hash.rs on
//!      frames and frame pairs; `post` turns the identity the MODEL prints into a worker index with the real
//!      std DefaultHasher, fed exactly as packet_hash.rs feeds it (&[u8] slices, then u16 ports).
//!  T2: real WorkerPools driven by 1..8 dispatcher threads; outcomes returned by dispatch vs stats() vs the
//!      results received; `\t!...` when the real counters break the law the model states for that pool.
//!  T2/G: the same pools with the receiver of the results dropped in mid-use: a worker that next produces a result
//!      exits, its queue is disconnected; every dispatch outcome (scripted calls and the probe calls that wait for the
//!      exit) vs stats(), and the line of the scripted calls vs the model (exited worker = channel answers `full`).
#![allow(dead_code)]
#[path = "../../c15/src/frames.rs"]
mod frames;
use frames::*;
use hnv_common::*;
use std::collections::hash_map::DefaultHasher;
use std::hash::{Hash, Hasher};
use std::sync::Arc;

// ------------------------------------------------------------------ T1
fn worker_of(krate: &str, n: usize, f: &[u8]) -> (String, bool) {
    match krate {
        "tcp" => { let w = huginn_net_tcp::packet_hash::hash_source_ip(f).checked_rem(n).unwrap_or(0); (w.to_string(), w < n) }
        "http" => { let w = huginn_net_http::packet_hash::hash_flow(f, n); (w.to_string(), w < n) }
        _ => match huginn_net_tls::packet_hash::hash_flow(f, n) { Some(w) => (w.to_string(), w < n), None => ("NONE".into(), true) },
    }
}

fn run_h(t: &[&str]) -> String {
    let n: usize = t[2].parse().unwrap();
    let (w, ok) = worker_of(t[1], n, &unhex_or_dash(t[3]));
    if ok { w } else { format!("{}\t!worker index {} is not below the worker count {}", w, w, n) }
}
fn run_p(t: &[&str]) -> String {
    let n: usize = t[2].parse().unwrap();
    let (w1, ok1) = worker_of(t[1], n, &unhex_or_dash(t[3]));
    let (w2, ok2) = worker_of(t[1], n, &unhex_or_dash(t[4]));
    let mut s = format!("{} {}", w1, w2);
    if !(ok1 && ok2) { s.push_str(&format!("\t!worker index not below the worker count {}", n)); }
    s
}

/// the real hasher on what the model says is hashed
fn hash_ident(tokens: &[&str], n: usize) -> String {
    match tokens.first().copied() {
        Some("NONE") => "NONE".into(),
        Some("B") => {
            let b = unhex_or_dash(tokens[1]);
            let mut h = DefaultHasher::new();
            b[..].hash(&mut h);                                  // `bytes.hash(&mut hasher)` with bytes: &[u8]
            ((h.finish() as usize).checked_rem(n).unwrap_or(0)).to_string()
        }
        Some("F") => {
            let (a, b) = (unhex_or_dash(tokens[1]), unhex_or_dash(tokens[2]));
            let (p, q): (u16, u16) = (tokens[3].parse().unwrap(), tokens[4].parse().unwrap());
            let mut h = DefaultHasher::new();
            a[..].hash(&mut h); b[..].hash(&mut h); p.hash(&mut h); q.hash(&mut h);
            ((h.finish() as usize).checked_rem(n).unwrap_or(0)).to_string()
        }
        _ => "BADIDENT".into(),
    }
}

fn post(case: &str, line: &str) -> String {
    let t: Vec<&str> = case.split_whitespace().collect();
    let parts: Vec<&str> = line.split('\t').collect();
    if parts.len() < 3 || t.is_empty() { return line.to_string(); }
    match t[0] {
        "H" => { let n: usize = t[2].parse().unwrap_or(1); let m: Vec<&str> = parts[0].split_whitespace().collect();
                 format!("{}\t{}\t{}", hash_ident(&m, n), parts[1], parts[2]) }
        "P" => {
            let n: usize = t[2].parse().unwrap_or(1);
            let ids: Vec<&str> = parts[0].split(" | ").collect();
            if ids.len() != 2 { return line.to_string(); }
            let w1 = hash_ident(&ids[0].split_whitespace().collect::<Vec<_>>(), n);
            let w2 = hash_ident(&ids[1].split_whitespace().collect::<Vec<_>>(), n);
            // SAME: the property demands a valid worker, the same for both frames
            let spec = if parts[1] == "SAME" { if w1 == "NONE" { "WORKER WORKER".to_string() } else { format!("{} {}", w1, w1) } } else { parts[1].to_string() };
            format!("{} {}\t{}\t{}", w1, w2, spec, parts[2])
        }
        _ => line.to_string(),
    }
}

// ------------------------------------------------------------------ T2
fn frame_of(kind: char, id: u32) -> Vec<u8> {
    let ipid = id / 64;                                     // id = 64 * (source address index) + (port index)
    let src = [10, (ipid >> 16) as u8, (ipid >> 8) as u8, ipid as u8];
    let dst = [192, 168, 0, 1];
    let sport = 1024 + (id % 64) as u16;
    match kind {
        's' => eth(0x0800, &V4::new(src, dst).build(&tcp_segment(sport, 443, id, 0, SYN, 65535, SYN_OPTS, &[]))),
        'h' => eth(0x0800, &V4::new(src, dst).build(&tcp_segment(sport, 443, id, 1, PSH | ACK, 512, &[], &client_hello()))),
        'u' => { let mut h = V4::new(src, dst); h.proto = 17; eth(0x0800, &h.build(&[0u8; 20])) }
        't' => eth(0x0800, &V4::new(src, dst).build(&[0u8; 10])),
        _ => vec![0xde, 0xad, 0xbe, 0xef, (id >> 24) as u8, (id >> 16) as u8, (id >> 8) as u8, id as u8],
    }
}
fn id_of(ip: std::net::IpAddr, port: u16) -> u32 {
    match ip { std::net::IpAddr::V4(a) => { let o = a.octets(); ((((o[1] as u32) << 16) | ((o[2] as u32) << 8) | o[3] as u32) * 64).wrapping_add(port.wrapping_sub(1024) as u32) } _ => u32::MAX }
}
fn real_worker(pool: &str, n: usize, f: &[u8]) -> Option<usize> {
    match pool {
        "tcp" => Some(huginn_net_tcp::packet_hash::hash_source_ip(f).checked_rem(n).unwrap_or(0)),
        "http" => Some(huginn_net_http::packet_hash::hash_flow(f, n)),
        _ => huginn_net_tls::packet_hash::hash_flow(f, n),
    }
}
fn is_err(kind: char) -> bool { kind == 'u' || kind == 't' }
fn yields(pool: &str, kind: char) -> bool { match pool { "tls" => kind == 'h', _ => kind == 's' || kind == 'g' } }

struct Pk { kind: char, worker: Option<usize>, id: u32, frame: Vec<u8> }
struct Observed { outcomes: Vec<(usize, bool)>, disp: u64, drop: u64, wd: Vec<u64>, qsizes: Vec<usize>, result_ids: Vec<u32>, nresults: usize }

trait PoolApi: Send + Sync { fn dispatch_q(&self, p: Vec<u8>) -> bool; fn stat(&self) -> (u64, u64, Vec<u64>, Vec<usize>); fn stop(&self); }
macro_rules! pool_api { ($krate:ident) => {
    impl PoolApi for $krate::WorkerPool {
        fn dispatch_q(&self, p: Vec<u8>) -> bool { self.dispatch(p) == $krate::DispatchResult::Queued }
        fn stat(&self) -> (u64, u64, Vec<u64>, Vec<usize>) { let s = self.stats(); (s.total_dispatched, s.total_dropped, s.workers.iter().map(|w| w.dropped).collect(), s.workers.iter().map(|w| w.queue_size).collect()) }
        fn stop(&self) { self.shutdown() }
    } } }
pool_api!(huginn_net_tcp); pool_api!(huginn_net_http); pool_api!(huginn_net_tls);

/// how a case is driven: `rounds` passes over the packet list through the same pool, every pass started on a barrier;
/// `tight`: no seeded pauses between dispatches (all threads hammer the same few queue slots)
#[derive(Clone, Copy)]
struct Plan { threads: usize, seed: u64, rounds: usize, tight: bool, matcher: bool }
/// contended cases (derived from the case line only): a queue of one or two slots, at least four dispatcher
/// threads and more packets than slots -> eight barrier-started passes without pauses; the TCP worker is slowed down
/// by the signature matcher on odd seeds, so that dispatchers race for every slot the worker frees
fn plan(cap: usize, threads: usize, seed: u64, calls: usize) -> Plan {
    let contended = (cap == 1 || cap == 2) && threads >= 4 && calls > cap;
    Plan { threads, seed, rounds: if contended { 8 } else { 1 }, tight: contended, matcher: contended && seed % 2 == 1 }
}
fn database() -> Arc<huginn_net_tcp::db::Database> {
    static DB: std::sync::OnceLock<Arc<huginn_net_tcp::db::Database>> = std::sync::OnceLock::new();
    DB.get_or_init(|| Arc::new(huginn_net_tcp::db::Database::load_default().expect("bundled database"))).clone()
}

fn drive(pool: Arc<dyn PoolApi>, pks: &[Pk], pl: Plan) -> Vec<(usize, bool)> {
    let threads = pl.threads;
    let chunks: Vec<Vec<usize>> = (0..threads).map(|t| (0..pks.len()).filter(|i| i % threads == t).collect()).collect();
    let barrier = std::sync::Barrier::new(threads);
    let res: Vec<Vec<(usize, bool)>> = std::thread::scope(|s| {
        let hs: Vec<_> = chunks.iter().enumerate().map(|(t, idx)| {
            let pool = pool.clone();
            let barrier = &barrier;
            let mut r = Rng::new(pl.seed.wrapping_mul(1000).wrapping_add(t as u64));
            s.spawn(move || {
                let mut v = Vec::new();
                for round in 0..pl.rounds {
                    barrier.wait();
                    // later passes walk the list from a different start so that the threads do not stay in lock step
                    let off = if idx.is_empty() { 0 } else { (round * 7 + t) % idx.len() };
                    for k in 0..idx.len() {
                        let i = idx[(k + off) % idx.len()];
                        if !pl.tight {
                            for _ in 0..r.below(200) { std::hint::spin_loop(); }
                            if r.chance(1, 16) { std::thread::yield_now(); }
                        }
                        v.push((i, pool.dispatch_q(pks[i].frame.clone())));
                    }
                }
                v
            })
        }).collect();
        hs.into_iter().map(|h| h.join().unwrap()).collect()
    });
    res.into_iter().flatten().collect()
}
fn settle(pool: &Arc<dyn PoolApi>) {
    let t0 = std::time::Instant::now();
    while pool.stat().3.iter().sum::<usize>() > 0 && t0.elapsed().as_secs() < 30 { std::thread::sleep(std::time::Duration::from_micros(200)); }
    pool.stop();
}

fn observe(pool_name: &str, n: usize, cap: usize, pl: Plan, pks: &[Pk]) -> Observed {
    match pool_name {
        "tcp" => {
            let (tx, rx) = std::sync::mpsc::channel::<huginn_net_tcp::TcpAnalysisResult>();
            let pool: Arc<dyn PoolApi> = Arc::new(huginn_net_tcp::WorkerPool::new(n, cap, 4, 2, tx, if pl.matcher { Some(database()) } else { None }, 1000, None).unwrap());
            let outcomes = drive(pool.clone(), pks, pl);
            settle(&pool);
            let rs: Vec<_> = rx.iter().collect();
            let ids = rs.iter().filter_map(|r| r.syn.as_ref().map(|s| id_of(s.source.ip, s.source.port))).collect();
            let (disp, drop, wd, qsizes) = pool.stat();
            Observed { outcomes, disp, drop, wd, qsizes, result_ids: ids, nresults: rs.len() }
        }
        "http" => {
            let (tx, rx) = std::sync::mpsc::channel::<huginn_net_http::HttpAnalysisResult>();
            let p: Arc<huginn_net_http::WorkerPool> = huginn_net_http::WorkerPool::new(n, cap, 4, 2, tx, None, 1000, None).unwrap();
            let pool: Arc<dyn PoolApi> = p;
            let outcomes = drive(pool.clone(), pks, pl);
            settle(&pool);
            let nresults = rx.iter().count();
            let (disp, drop, wd, qsizes) = pool.stat();
            Observed { outcomes, disp, drop, wd, qsizes, result_ids: vec![], nresults }
        }
        _ => {
            let (tx, rx) = std::sync::mpsc::channel::<huginn_net_tls::TlsClientOutput>();
            let pool: Arc<dyn PoolApi> = Arc::new(huginn_net_tls::WorkerPool::new(n, cap, 4, 2, tx, 1000, None).unwrap());
            let outcomes = drive(pool.clone(), pks, pl);
            settle(&pool);
            let rs: Vec<_> = rx.iter().collect();
            let ids = rs.iter().map(|r| id_of(r.source.ip, r.source.port)).collect();
            let (disp, drop, wd, qsizes) = pool.stat();
            Observed { outcomes, disp, drop, wd, qsizes, result_ids: ids, nresults: rs.len() }
        }
    }
}

fn run_q(t: &[&str]) -> String {
    let pool = t[1];
    let n: usize = t[2].parse().unwrap();
    let cap: usize = t[3].parse().unwrap();
    let threads: usize = t[4].parse().unwrap();
    let seed: u64 = t[5].parse().unwrap();
    let mut pks = Vec::new();
    for tok in &t[6..] {
        let p: Vec<&str> = tok.split(':').collect();
        let kind = p[0].chars().next().unwrap();
        let id: u32 = p[2].parse().unwrap();
        let frame = frame_of(kind, id);
        let worker = if p[1] == "-" { None } else { Some(p[1].parse::<usize>().unwrap()) };
        if real_worker(pool, n, &frame) != worker { return format!("HASHMISMATCH {} real={:?}", tok, real_worker(pool, n, &frame)); }
        pks.push(Pk { kind, worker, id, frame });
    }
    let pl = plan(cap, threads, seed, pks.len());
    let o = observe(pool, n, cap, pl, &pks);
    let calls = pks.len();                       // per pass; the laws are checked over all passes
    let total = o.outcomes.len();
    let queued = o.outcomes.iter().filter(|(_, q)| *q).count();
    let dropped = total - queued;
    let mut bad: Vec<String> = Vec::new();
    if total != calls * pl.rounds { bad.push(format!("{} dispatch calls returned, {} were made", total, calls * pl.rounds)); }
    // the law the model states for this pool
    let discards = o.outcomes.iter().filter(|(i, _)| pks[*i].worker.is_none()).count();
    let want_disp = match pool { "tcp" => queued, "http" => total, _ => total - discards } as u64;
    if o.disp != want_disp { bad.push(format!("total_dispatched={} but the law gives {}", o.disp, want_disp)); }
    if o.drop != dropped as u64 { bad.push(format!("total_dropped={} but dispatch returned Dropped {} times ({} calls, {} Queued)", o.drop, dropped, total, queued)); }
    for w in 0..n {
        let d = o.outcomes.iter().filter(|(i, q)| !*q && pks[*i].worker == Some(w)).count();
        if o.wd.get(w).copied() != Some(d as u64) { bad.push(format!("worker {} dropped={:?} but dispatch returned Dropped {} times for it", w, o.wd.get(w), d)); }
    }
    for (i, q) in &o.outcomes { if pks[*i].worker.is_none() && *q { bad.push(format!("packet {} has no worker but was reported Queued", i)); } }
    // each queued packet analysed exactly once, none dropped is
    let want_results = o.outcomes.iter().filter(|(i, q)| *q && yields(pool, pks[*i].kind)).count();
    if o.nresults != want_results { bad.push(format!("{} results received, {} queued packets yield one", o.nresults, want_results)); }
    if pool != "http" {
        let mut got = o.result_ids.clone(); got.sort();
        let mut want: Vec<u32> = o.outcomes.iter().filter(|(i, q)| *q && yields(pool, pks[*i].kind) && pks[*i].kind != 'g').map(|(i, _)| pks[*i].id).collect(); want.sort();
        if got != want { bad.push(format!("analysed ids {:?} differ from queued ids {:?}", &got[..got.len().min(8)], &want[..want.len().min(8)])); }
    }
    if o.qsizes.iter().any(|q| *q != 0) { bad.push(format!("queues not empty at the end: {:?}", o.qsizes)); }
    let mut s = if calls <= cap {
        format!("calls={} queued={} dropped={} disp={} drop={} wd={} results={} law=ok", calls, queued, dropped, o.disp, o.drop,
                o.wd.iter().map(|x| x.to_string()).collect::<Vec<_>>().join(","), o.nresults)
    } else { format!("calls={} law=ok\tpasses={} dispatches={} queued={}", calls, pl.rounds, total, queued) };
    if !bad.is_empty() { s.push_str(&format!("\t!{} pool: {}", pool, bad.join("; "))); }
    s
}

// ------------------------------------------------------------------ T2/G: result consumer gone
fn parse_pk(pool: &str, n: usize, tok: &str) -> Result<Pk, String> {
    let p: Vec<&str> = tok.split(':').collect();
    let kind = p[0].chars().next().unwrap();
    let id: u32 = p[2].parse().unwrap();
    let frame = frame_of(kind, id);
    let worker = if p[1] == "-" { None } else { Some(p[1].parse::<usize>().unwrap()) };
    if real_worker(pool, n, &frame) != worker { return Err(format!("HASHMISMATCH {} real={:?}", tok, real_worker(pool, n, &frame))); }
    Ok(Pk { kind, worker, id, frame })
}

/// how long the harness waits for an observable condition (results of phase A received, a worker's exit seen by
/// dispatch) before it gives the case up; never a fixed sleep
const WAIT: std::time::Duration = std::time::Duration::from_secs(30);

fn gone_case<R>(pool_name: &str, pool: Arc<dyn PoolApi>, rx: std::sync::mpsc::Receiver<R>, n: usize, cap: usize, a: &[Pk], b: &[Pk]) -> String {
    use std::time::{Duration, Instant};
    let mut outs: Vec<(Option<usize>, bool)> = Vec::new();           // scripted calls: (worker, Queued?)
    let mut probes: Vec<(usize, bool)> = Vec::new();                 // probe calls:    (worker, Queued?)
    // ---- before `/`: consumer alive; every result is received before the receiver goes away
    let mut want_a = 0usize;
    for p in a { let q = pool.dispatch_q(p.frame.clone()); if q && yields(pool_name, p.kind) { want_a += 1; } outs.push((p.worker, q)); }
    let t0 = Instant::now();
    let mut res_a = 0usize;
    while res_a < want_a { match rx.recv_timeout(WAIT.saturating_sub(t0.elapsed())) { Ok(_) => res_a += 1, Err(_) => break } }
    while pool.stat().3.iter().sum::<usize>() > 0 && t0.elapsed() < WAIT { std::thread::sleep(Duration::from_micros(100)); }
    res_a += rx.try_iter().count();
    drop(rx);
    // ---- after `/`: a Queued packet that yields a result makes its worker exit; wait until dispatch sees it
    let mut gone = vec![false; n];
    for p in b {
        let q = pool.dispatch_q(p.frame.clone());
        outs.push((p.worker, q));
        if let (true, true, Some(w)) = (q, yields(pool_name, p.kind), p.worker) {
            let t1 = Instant::now();
            let mut pause = Duration::from_micros(20);
            loop {
                std::thread::sleep(pause);
                pause = (pause * 2).min(Duration::from_millis(50));
                let pq = pool.dispatch_q(p.frame.clone());
                probes.push((w, pq));
                if !pq { break; }
                if t1.elapsed() > WAIT { pool.stop(); return format!("TIMEOUT worker {} still accepts packets {:?} after it had to send to the dropped receiver", w, WAIT); }
            }
            let qs = pool.stat().3;
            if qs.get(w).copied().unwrap_or(0) >= cap { pool.stop(); return format!("INCONCLUSIVE queue {} filled up ({:?})", w, qs); }
            gone[w] = true;
        }
    }
    let (disp, drop, wd, _) = pool.stat();
    pool.stop();
    // ---- the laws over ALL dispatch calls (scripted and probes)
    let calls = outs.len() + probes.len();
    let queued = outs.iter().filter(|(_, q)| *q).count() + probes.iter().filter(|(_, q)| *q).count();
    let dropped = calls - queued;
    let discards = outs.iter().filter(|(w, _)| w.is_none()).count();
    let mut bad: Vec<String> = Vec::new();
    let want_disp = match pool_name { "tcp" => queued, "http" => calls, _ => calls - discards } as u64;
    if disp != want_disp { bad.push(format!("total_dispatched={} but the law gives {}", disp, want_disp)); }
    if drop != dropped as u64 { bad.push(format!("total_dropped={} but dispatch returned Dropped {} times ({} calls, {} Queued)", drop, dropped, calls, queued)); }
    let mut wd_sum = 0u64;
    for w in 0..n {
        let d = outs.iter().filter(|(pw, q)| !*q && *pw == Some(w)).count() + probes.iter().filter(|(pw, q)| !*q && *pw == w).count();
        wd_sum += wd.get(w).copied().unwrap_or(0);
        if wd.get(w).copied() != Some(d as u64) { bad.push(format!("worker {} dropped={:?} but dispatch returned Dropped {} times for it", w, wd.get(w), d)); }
    }
    if wd_sum + discards as u64 != drop { bad.push(format!("per-worker dropped sum {} + {} discards differs from total_dropped {}", wd_sum, discards, drop)); }
    for (i, (w, q)) in outs.iter().enumerate() { if w.is_none() && *q { bad.push(format!("packet {} has no worker but was reported Queued", i)); } }
    if res_a != want_a { bad.push(format!("{} results received before the receiver was dropped, {} queued packets yield one", res_a, want_a)); }
    // ---- the line of the scripted calls: counters minus what the probe calls account for
    let pq = probes.iter().filter(|(_, q)| *q).count() as i64;
    let pd = probes.len() as i64 - pq;
    let disp_net = disp as i64 - if pool_name == "tcp" { pq } else { probes.len() as i64 };
    let wd_net: Vec<String> = (0..n).map(|w| (wd.get(w).copied().unwrap_or(0) as i64 - probes.iter().filter(|(pw, q)| !*q && *pw == w).count() as i64).to_string()).collect();
    let out: String = if outs.is_empty() { "-".into() } else { outs.iter().map(|(_, q)| if *q { 'Q' } else { 'D' }).collect() };
    let mut s = format!("calls={} out={} disp={} drop={} wd={} resA={} gone={} law=ok", outs.len(), out, disp_net, drop as i64 - pd, wd_net.join(","), res_a,
                        gone.iter().map(|g| if *g { '1' } else { '0' }).collect::<String>());
    if !bad.is_empty() { s.push_str(&format!("\t!{} pool, result receiver dropped: {}", pool_name, bad.join("; "))); }
    s
}

fn run_g(t: &[&str]) -> String {
    let pool = t[1];
    let n: usize = t[2].parse().unwrap();
    let cap: usize = t[3].parse().unwrap();
    let (mut a, mut b, mut after) = (Vec::new(), Vec::new(), false);
    for tok in &t[4..] {
        if *tok == "/" { after = true; continue; }
        match parse_pk(pool, n, tok) { Ok(p) => if after { b.push(p) } else { a.push(p) }, Err(e) => return e }
    }
    if !after { return "BADCASE".into(); }
    match pool {
        "tcp" => {
            let (tx, rx) = std::sync::mpsc::channel::<huginn_net_tcp::TcpAnalysisResult>();
            let p: Arc<dyn PoolApi> = Arc::new(huginn_net_tcp::WorkerPool::new(n, cap, 4, 2, tx, None, 1000, None).unwrap());
            gone_case(pool, p, rx, n, cap, &a, &b)
        }
        "http" => {
            let (tx, rx) = std::sync::mpsc::channel::<huginn_net_http::HttpAnalysisResult>();
            let p: Arc<huginn_net_http::WorkerPool> = huginn_net_http::WorkerPool::new(n, cap, 4, 2, tx, None, 1000, None).unwrap();
            gone_case(pool, p, rx, n, cap, &a, &b)
        }
        _ => {
            let (tx, rx) = std::sync::mpsc::channel::<huginn_net_tls::TlsClientOutput>();
            let p: Arc<dyn PoolApi> = Arc::new(huginn_net_tls::WorkerPool::new(n, cap, 4, 2, tx, 1000, None).unwrap());
            gone_case(pool, p, rx, n, cap, &a, &b)
        }
    }
}

fn run(line: &str) -> String {
    let t: Vec<&str> = line.split_whitespace().collect();
    match t[0] { "H" => run_h(&t), "P" => run_p(&t), "Q" => run_q(&t), "G" => run_g(&t), _ => "BADCASE".into() }
}

// ------------------------------------------------------------------ generators
const CRATES: &[&str] = &["tcp", "http", "tls"];
fn nworkers(r: &mut Rng) -> usize { if r.chance(1, 3) { *r.pick(&[1usize, 2, 3, 4, 7, 8, 16, 63, 64]) } else { r.range(1, 64) as usize } }

/// two packets of one connection that share the crate's identity and differ everywhere else
fn identity_pair(r: &mut Rng, krate: &str) -> (Vec<u8>, Vec<u8>) {
    let c = Conn::gen(r);
    let mut d = c.clone();
    d.isn_c = r.next() as u32; d.isn_s = r.next() as u32;
    let dir1 = r.chance(1, 2);
    let dir2 = match krate { "http" => r.chance(1, 2), _ => dir1 };          // HTTP: either direction
    if krate == "tcp" {                                                        // TCP: only the source address is shared
        if dir1 { d.s4 = addr4(r); d.s6 = addr6(r); d.sp = port(r); d.cp = port(r); } else { d.c4 = addr4(r); d.c6 = addr6(r); d.cp = port(r); d.sp = port(r); }
    }
    let mk = |r: &mut Rng, c: &Conn, dir: bool| -> Vec<u8> {
        let kind = r.below(6) as u8;
        let seg = { let mut s = c.seg(dir, kind); if r.chance(1, 3) { let n = r.range(1, 40) as usize; s.extend(r.bytes(n)); } s };
        let opt_words = if r.chance(1, 2) { 0 } else { r.below(11) as usize };
        let ihl = if r.chance(1, 4) { Some(r.below(16) as u8) } else { None };
        let mut ip = c.ip(dir, &seg, opt_words, ihl);
        if !c.v6 { ip[8] = r.next() as u8; ip[1] = r.next() as u8; ip[4] = r.next() as u8; ip[5] = r.next() as u8; }   // ttl, tos, id
        else { ip[7] = r.next() as u8; ip[1] = (r.next() as u8) & 0x0f; }
        let fr = match r.below(6) { 0 | 1 | 2 => Framing::Eth, 3 | 4 => Framing::Raw, _ => Framing::EthMac(*r.pick(&[0x45u8, 0x60, 0x1e])) };
        wrap(fr, c.v6, &ip)
    };
    (mk(r, &c, dir1), mk(r, &d, dir2))
}

fn gen(r: &mut Rng, tier: &Tier, out: &mut Vec<String>) {
    // ---- T1 stream 1: identity pairs ----
    for _ in 0..tier.scale(2500, 40000) {
        let k = *r.pick(CRATES);
        let (a, b) = identity_pair(r, k);
        let n = nworkers(r);
        out.push(format!("P {} {} {} {}", k, n, hex(&a), hex(&b)));
        if r.chance(1, 4) { out.push(format!("H {} {} {}", k, n, hex(&a))); }
    }
    // former known class (repaired): raw IPv4 from 134.221.x.x (bytes 12..13 = 86 dd) shorter than 54 bytes, pairs sharing the identity;
    // plus Ethernet frames cut just below / at the 34 and 54 byte thresholds of the framing decision
    for third in [0x10u8, 0x45, 0x60, 0x99] { for k in CRATES { for n in [2usize, 5, 64] { for extra in [0usize, 4, 12] {
        let mk = |seq: u32, win: u16| V4::new([134, 221, third, 7], [10, 0, 0, 2]).build(&tcp_segment(40000, 80, seq, 0, SYN, win, &vec![1u8; extra], &[]));
        out.push(format!("P {} {} {} {}", k, n, hex(&mk(1, 1000)), hex(&mk(0x01020304, 4321))));
        out.push(format!("H {} {} {}", k, n, hex(&mk(77, 512))));
    }}}}
    for k in CRATES { for (et, v6) in [(0x0800u16, false), (0x86DDu16, true)] { for len in [14usize, 15, 20, 33, 34, 35, 40, 53, 54, 55, 60, 74] { for b0 in [0x02u8, 0x45, 0x60] {
        let mut c = Conn::gen(r); c.v6 = v6;
        let mut f = eth_mac(b0, et, &c.ip(true, &c.seg(true, 0), 0, None));
        f.truncate(len);
        out.push(format!("H {} {} {}", k, 1 + len % 64, hex(&f)));
    }}}}
    // ---- T1 stream 2: single frames: malformed, truncated, every IHL, loopback, non-TCP ----
    for _ in 0..tier.scale(1500, 25000) {
        let c = Conn::gen(r);
        let dir = r.chance(1, 2);
        let opt_words = if r.chance(1, 2) { 0 } else { r.below(11) as usize };
        let ihl = if r.chance(1, 2) { Some(r.below(16) as u8) } else { None };
        let kind = r.below(6) as u8;
        let ip = c.ip(dir, &c.seg(dir, kind), opt_words, ihl);
        let an = r.chance(1, 2);
        let mut f = wrap(framing(r, an), c.v6, &ip);
        if r.chance(1, 2) { f = malformed(r, &f); }
        out.push(format!("H {} {} {}", r.pick(CRATES), nworkers(r), hex_or_dash(&f)));
    }
    // ---- T1 exhaustive-small: every worker count 1..64 x every truncation of one frame per family x 3 crates ----
    let c = Conn::gen(r);
    for v6 in [false, true] { for fr in [Framing::Eth, Framing::Raw] {
        let mut c2 = c.clone(); c2.v6 = v6;
        let f = wrap(fr, v6, &c2.ip(true, &c2.seg(true, 0), 1, None));
        for k in CRATES {
            for n in 1..=64usize { out.push(format!("H {} {} {}", k, n, hex(&f))); }
            for cut in 0..=f.len() { out.push(format!("H {} {} {}", k, 1 + cut % 64, hex_or_dash(&f[..cut]))); }
        }
    }}
    for ihl in 0..16u8 { for k in CRATES { for words in [0usize, 3] { for tl in [None, Some(20u16), Some(0)] {
        let mut h = V4::new([10, 1, 2, 3], [10, 3, 2, 1]); h.ihl = Some(ihl); h.opt_words = words; h.total_len = tl;
        let seg = tcp_segment(1111, 2222, 5, 6, ACK, 100, &[], b"payload bytes here.............................");
        out.push(format!("H {} {} {}", k, 8, hex(&eth(0x0800, &h.build(&seg)))));
        out.push(format!("H {} {} {}", k, 8, hex(&h.build(&seg))));
    }}}}
    // ---- T2: real pools ----
    let nq = tier.scale(420, 4000);
    for q in 0..nq {
        let pool = CRATES[q % 3];
        let n = *r.pick(&[1usize, 2, 3, 4, 8]);
        let npk = r.range(4, 40) as usize;
        let cap = match (q / 3) % 5 { 0 => 0, 1 => 1, 2 => 2, 3 => 64, _ => *r.pick(&[3usize, 5, 64]) };
        let threads = 1 + (q / 15) % 8;
        let kinds: &[char] = if pool == "tls" { &['h', 'h', 's', 'u', 't', 'g'] } else { &['s', 's', 's', 'u', 't', 'g'] };
        let hot = r.chance(1, 2);                   // many packets of few sources -> one worker overflows
        let mut toks = Vec::new();
        for j in 0..npk {
            let kind = *r.pick(kinds);
            let ipid: u32 = if hot { r.below(3) as u32 } else { r.below(1 << 16) as u32 };
            let id = ipid * 64 + j as u32;                       // unique per case: identifies the result
            let w = real_worker(pool, n, &frame_of(kind, id));
            toks.push(format!("{}:{}:{}", kind, w.map(|x| x.to_string()).unwrap_or("-".into()), id));
        }
        out.push(format!("Q {} {} {} {} {} {}", pool, n, cap, threads, r.below(1 << 30), toks.join(" ")));
    }
    // contended accounting: every packet goes to ONE worker whose queue holds one or two packets, 4..8 dispatcher threads
    // (the harness then makes eight barrier-started passes without pauses: ~500 dispatches per case racing for the
    // slots the worker frees), so `calls = queued + dropped` and `total_dropped = number of Dropped` are exercised
    // tens of thousands of times per run
    let nc = tier.scale(96, 600);
    for q in 0..nc {
        let pool = if q % 4 == 3 { CRATES[1 + (q / 4) % 2] } else { "tcp" };
        let n = if pool == "tcp" { *r.pick(&[1usize, 2, 4]) } else { 1 };       // tcp: one source address = one worker
        let cap = 1 + q % 2;
        let threads = 4 + (q / 2) % 5;
        let npk = r.range(48, 64) as usize;
        let ipid = r.below(1 << 16) as u32;
        let toks: Vec<String> = (0..npk).map(|j| {
            let kind = if pool == "tls" && j % 2 == 0 { 'h' } else { 's' };
            let id = ipid * 64 + j as u32;
            let w = real_worker(pool, n, &frame_of(kind, id));
            format!("{}:{}:{}", kind, w.map(|x| x.to_string()).unwrap_or("-".into()), id) }).collect();
        out.push(format!("Q {} {} {} {} {} {}", pool, n, cap, threads, r.below(1 << 30), toks.join(" ")));
    }
    // ---- T2/G: the receiver of the results is dropped in mid-use (pool not shut down) ----
    // a packet of `kind` that the real hash routes to worker `w` (fresh source address per call)
    fn routed(pool: &str, n: usize, kind: char, w: usize, next_ip: &mut u32, j: &mut u32) -> String {
        for _ in 0..100_000 {
            let id = *next_ip * 64 + *j; *next_ip += 1;
            if real_worker(pool, n, &frame_of(kind, id)) == Some(w) { *j += 1; return format!("{}:{}:{}", kind, w, id); }
        }
        panic!("no {} packet found for worker {} of {} ({})", kind, w, n, pool)
    }
    for pool in CRATES {
        let y = if *pool == "tls" { 'h' } else { 's' };                 // yields a result in this pool
        let quiet: &[char] = if *pool == "tls" { &['s'] } else { &['u', 't'] };     // routed, analysed, no result
        // fixed histories, the same for every seed: per worker count, the receiver dropped at the start / after some
        // traffic; one result-yielding packet per worker in turn, then k packets to the same and to the other workers
        for n in [1usize, 2, 3, 4] { for pre in [0usize, 3] { for k in [1usize, 5] {
            let (mut ip, mut j) = (1000u32 * n as u32, 0u32);
            let mut toks: Vec<String> = Vec::new();
            for i in 0..pre { toks.push(routed(pool, n, if i % 2 == 0 { y } else { quiet[0] }, i % n, &mut ip, &mut j)); }
            toks.push("/".into());
            for w in 0..n {
                for v in 0..n { toks.push(routed(pool, n, quiet[v % quiet.len()], v, &mut ip, &mut j)); }   // all still as before
                toks.push(routed(pool, n, y, w, &mut ip, &mut j));                                        // worker w exits
                for i in 0..k { toks.push(routed(pool, n, if i % 2 == 0 { quiet[0] } else { y }, w, &mut ip, &mut j)); }
                for v in 0..n { if v != w { toks.push(routed(pool, n, quiet[(v + k) % quiet.len()], v, &mut ip, &mut j)); } }
                if *pool == "tls" { toks.push(format!("u:-:{}", ip * 64 + j)); ip += 1; j += 1; }                  // TLS discard, no worker
            }
            if j < 64 { out.push(format!("G {} {} {} {}", pool, n, 512, toks.join(" "))); }
        }}}
        // random histories: few sources, so that packets keep arriving for workers that have exited
        let kinds: &[char] = if *pool == "tls" { &['h', 'h', 's', 'u', 't', 'g'] } else { &['s', 's', 'u', 'u', 't', 'g'] };
        for _ in 0..tier.scale(40, 400) {
            let n = *r.pick(&[1usize, 2, 3, 4, 8]);
            let cap = *r.pick(&[512usize, 1024]);
            let (na, nb) = (r.below(8) as usize, r.range(2, 40) as usize);
            let nsrc = r.range(1, 6) as u32;
            let base = r.below(1 << 14) as u32;
            let mut toks: Vec<String> = Vec::new();
            for j in 0..na + nb {
                if j == na { toks.push("/".into()); }
                let kind = *r.pick(kinds);
                // http/tls route by the whole flow: few port indexes as well, so that workers are hit repeatedly
                let id = (base + r.below(nsrc as u64) as u32) * 64 + j as u32;
                let w = real_worker(pool, n, &frame_of(kind, id));
                toks.push(format!("{}:{}:{}", kind, w.map(|x| x.to_string()).unwrap_or("-".into()), id));
            }
            out.push(format!("G {} {} {} {}", pool, n, cap, toks.join(" ")));
        }
    }
}

fn main() { main_cli_post(gen, run, post) }
