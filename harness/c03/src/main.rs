//! C03 harness: IPv4/IPv6 TCP packets (or link-layer frames) through the public API
//! `packet_parser::parse_packet` + `process::process_ipv4_packet / process_ipv6_packet` with a
//! `SignatureMatcher` over the default database (only its MTU table matters here) and a fresh
//! connection tracker per case.  Printed: Display string of `.syn.sig`, `.syn_ack.sig`, `.mtu.mtu`,
//! `.mtu.link`.  Line grammar: see coq/Extract/EC03.v.
use hnv_common::*;
use huginn_net_db::Database;
use huginn_net_tcp::packet_parser::{parse_packet, IpPacket};
use huginn_net_tcp::{process_ipv4_packet, process_ipv6_packet, HuginnNetTcpError, SignatureMatcher, TcpAnalysisResult};
use pnet::packet::ipv4::Ipv4Packet;
use pnet::packet::ipv6::Ipv6Packet;
use std::sync::OnceLock;
use ttl_cache::TtlCache;

static DB: OnceLock<Database> = OnceLock::new();
fn db() -> &'static Database {
    DB.get_or_init(|| {
        huginn_net_tcp::uptime::verif_hooks::set_frozen_clock(Some(1_700_000_000_000));
        Database::load_default().expect("default database")
    })
}

fn show(r: Result<TcpAnalysisResult, HuginnNetTcpError>) -> String {
    match r {
        Err(_) => "ERR".to_string(),
        Ok(a) => {
            let syn = a.syn.as_ref().map(|s| s.sig.matching.to_string()).unwrap_or_else(|| "-".into());
            let synack = a.syn_ack.as_ref().map(|s| s.sig.matching.to_string()).unwrap_or_else(|| "-".into());
            let mtu = a.mtu.as_ref().map(|m| m.mtu.to_string()).unwrap_or_else(|| "-".into());
            let link = a.mtu.as_ref().and_then(|m| m.link.link.as_ref()).map(|l| hex(l.as_bytes())).unwrap_or_else(|| "-".into());
            format!("syn={} synack={} mtu={} link={}", syn, synack, mtu, link)
        }
    }
}

fn run(line: &str) -> String {
    let (k, h) = line.split_once(' ').expect("case");
    let b = unhex_or_dash(h.trim());
    let database = db();
    let matcher = SignatureMatcher::new(database);
    let mut tracker = TtlCache::new(64);
    match k {
        "4" => match Ipv4Packet::new(&b) { None => "NOPKT".into(), Some(p) => show(process_ipv4_packet(&p, &mut tracker, Some(&matcher))) },
        "6" => match Ipv6Packet::new(&b) { None => "NOPKT".into(), Some(p) => show(process_ipv6_packet(&p, &mut tracker, Some(&matcher))) },
        "F" => match parse_packet(&b) {
            IpPacket::Ipv4(p) => show(process_ipv4_packet(&p, &mut tracker, Some(&matcher))),
            IpPacket::Ipv6(p) => show(process_ipv6_packet(&p, &mut tracker, Some(&matcher))),
            // lib.rs process_packet: no IP packet -> an empty result
            IpPacket::None => "syn=- synack=- mtu=- link=-".into(),
        },
        _ => panic!("bad case kind"),
    }
}

// ------------------------------------------------------------------ packet builder
#[derive(Clone)]
struct Tcp { sport: u16, dport: u16, seq: u32, ack: u32, doff: Option<u8>, reserved: u8, flags: u8, win: u16, urg: u16, opts: Vec<u8>, payload: Vec<u8> }
impl Tcp {
    fn bytes(&self) -> Vec<u8> {
        let mut v = Vec::new();
        v.extend_from_slice(&self.sport.to_be_bytes()); v.extend_from_slice(&self.dport.to_be_bytes());
        v.extend_from_slice(&self.seq.to_be_bytes()); v.extend_from_slice(&self.ack.to_be_bytes());
        let doff = self.doff.unwrap_or(((20 + self.opts.len()) / 4) as u8) & 0x0f;
        v.push((doff << 4) | (self.reserved & 0x0f)); v.push(self.flags);
        v.extend_from_slice(&self.win.to_be_bytes()); v.extend_from_slice(&[0xab, 0xcd]); v.extend_from_slice(&self.urg.to_be_bytes());
        v.extend_from_slice(&self.opts); v.extend_from_slice(&self.payload);
        v
    }
}
#[derive(Clone)]
struct V4 { ver: u8, ihl: Option<u8>, tos: u8, total: Option<u16>, id: u16, flags3: u8, frag: u16, ttl: u8, proto: u8, src: [u8; 4], ipopts: Vec<u8> }
impl V4 {
    fn bytes(&self, seg: &[u8]) -> Vec<u8> {
        let ihl = self.ihl.unwrap_or(((20 + self.ipopts.len()) / 4) as u8) & 0x0f;
        let total = self.total.unwrap_or((20 + self.ipopts.len() + seg.len()).min(65535) as u16);
        let mut v = vec![(self.ver << 4) | ihl, self.tos];
        v.extend_from_slice(&total.to_be_bytes()); v.extend_from_slice(&self.id.to_be_bytes());
        let fo = ((self.flags3 as u16 & 7) << 13) | (self.frag & 0x1fff);
        v.extend_from_slice(&fo.to_be_bytes()); v.push(self.ttl); v.push(self.proto); v.extend_from_slice(&[0x12, 0x34]);
        v.extend_from_slice(&self.src); v.extend_from_slice(&[192, 168, 1, 2]);
        v.extend_from_slice(&self.ipopts); v.extend_from_slice(seg);
        v
    }
}
#[derive(Clone)]
struct V6 { ver: u8, tc: u8, flow: u32, plen: Option<u16>, next: u8, hop: u8 }
impl V6 {
    fn bytes(&self, seg: &[u8]) -> Vec<u8> {
        let w: u32 = ((self.ver as u32) << 28) | ((self.tc as u32) << 20) | (self.flow & 0xfffff);
        let mut v = w.to_be_bytes().to_vec();
        v.extend_from_slice(&self.plen.unwrap_or(seg.len().min(65535) as u16).to_be_bytes()); v.push(self.next); v.push(self.hop);
        v.extend_from_slice(&[0x20, 0x01, 0x0d, 0xb8, 0, 0, 0, 0, 0, 0, 0, 0, 0, 0, 0, 1]);
        v.extend_from_slice(&[0x20, 0x01, 0x0d, 0xb8, 0, 0, 0, 0, 0, 0, 0, 0, 0, 0, 0, 2]);
        v.extend_from_slice(seg);
        v
    }
}

const TTLS: &[u8] = &[0, 1, 2, 31, 32, 33, 34, 35, 63, 64, 65, 97, 98, 99, 127, 128, 129, 224, 225, 226, 254, 255];
const MSSES: &[u16] = &[0, 1, 12, 13, 99, 100, 101, 112, 536, 1360, 1400, 1440, 1448, 1452, 1460, 8960, 16344, 65495, 65496, 65530, 65531, 65535];
const FLAGSETS: &[u8] = &[0x02, 0x12, 0x10, 0x18, 0x11, 0x14, 0x04, 0x01, 0xc2, 0x52, 0x42, 0x82, 0x22, 0x0a, 0x1a, 0x32, 0x00, 0x03, 0x06, 0x05, 0x20, 0x08];

fn std_tcp(flags: u8) -> Tcp {
    Tcp { sport: 40000, dport: 443, seq: 0x01020304, ack: if flags & 0x10 != 0 { 0x0a0b0c0d } else { 0 }, doff: None, reserved: 0, flags, win: 65535, urg: 0, opts: vec![], payload: vec![] }
}
fn std_v4() -> V4 { V4 { ver: 4, ihl: None, tos: 0, total: None, id: 0x1234, flags3: 2, frag: 0, ttl: 64, proto: 6, src: [10, 0, 0, 1], ipopts: vec![] } }
fn std_v6() -> V6 { V6 { ver: 6, tc: 0, flow: 0, plen: None, next: 6, hop: 64 } }

fn mss_opt(m: u16) -> Vec<u8> { vec![2, 4, (m >> 8) as u8, m as u8] }
fn ts_opt(a: u32, b: u32) -> Vec<u8> { let mut v = vec![8, 10]; v.extend_from_slice(&a.to_be_bytes()); v.extend_from_slice(&b.to_be_bytes()); v }
fn linux_opts(m: u16, ws: u8) -> Vec<u8> { let mut v = mss_opt(m); v.extend_from_slice(&[4, 2]); v.extend(ts_opt(0x00112233, 0)); v.extend_from_slice(&[1, 3, 3, ws]); v }
fn windows_opts(m: u16, ws: u8) -> Vec<u8> { let mut v = mss_opt(m); v.extend_from_slice(&[1, 3, 3, ws, 1, 1, 4, 2]); v }
fn macos_opts(m: u16, ws: u8) -> Vec<u8> { let mut v = mss_opt(m); v.extend_from_slice(&[1, 3, 3, ws, 1, 1]); v.extend(ts_opt(0x31323334, 0)); v.extend_from_slice(&[4, 2, 0, 0]); v }

fn gen_mss(r: &mut Rng) -> u16 { if r.chance(4, 5) { *r.pick(MSSES) } else { r.below(65536) as u16 } }

/// one well-formed option
fn wf_option(r: &mut Rng, mss: u16) -> Vec<u8> {
    match r.below(12) {
        0 | 1 => vec![1],
        2 | 3 => mss_opt(mss),
        4 => vec![3, 3, *r.pick(&[0u8, 1, 7, 8, 14, 15, 16, 255])],
        5 => vec![4, 2],
        6 => { let n = r.range(1, 4) as usize; let mut v = vec![5, (2 + 8 * n) as u8]; v.extend(r.bytes(8 * n)); v }
        7 | 8 => ts_opt(*r.pick(&[0u32, 1, 0x01000000, 0xffffffff, 0x00010000]), *r.pick(&[0u32, 0, 1, 0x01000000, 0xffffffff])),
        9 => { let k = *r.pick(&[6u8, 7, 9, 19, 28, 30, 34, 69, 253, 254, 255]); let n = r.below(5) as usize; let mut v = vec![k, (2 + n) as u8]; v.extend(r.bytes(n)); v }
        10 => vec![1, 1],
        _ => vec![4, 2],
    }
}
/// option area from the grammar: well-formed list, then (maybe) EOL + padding, padded to a multiple of 4
fn gen_opts(r: &mut Rng, mss: u16) -> Vec<u8> {
    let mut v: Vec<u8> = match r.below(10) {
        0 => vec![],
        1 => linux_opts(mss, *r.pick(&[0u8, 7, 14, 15])),
        2 => windows_opts(mss, *r.pick(&[0u8, 2, 8, 14, 15])),
        3 => macos_opts(mss, *r.pick(&[5u8, 6, 16])),
        _ => { let mut v = vec![]; for _ in 0..r.range(1, 6) { let o = wf_option(r, mss); if v.len() + o.len() <= 40 { v.extend(o); } } v }
    };
    // ending
    match r.below(8) {
        0 | 1 => { while v.len() % 4 != 0 { v.push(1); } }                 // NOP padding
        2 | 3 => { if v.len() < 40 { v.push(0); } while v.len() % 4 != 0 { v.push(0); } }  // EOL + zero padding
        4 => { if v.len() < 40 { v.push(0); } let k = r.below(6) as usize; for _ in 0..k { if v.len() < 40 { v.push(0); } } while v.len() % 4 != 0 { v.push(0); } }
        5 => { if v.len() < 40 { v.push(0); } while v.len() % 4 != 0 { v.push(r.below(3) as u8 * 0x55); } if r.chance(1, 2) && v.len() + 4 <= 40 { v.extend_from_slice(&[0, 0, 0, r.below(2) as u8]); } }   // trailing non-zero
        _ => { while v.len() % 4 != 0 { v.push(if r.chance(1, 2) { 0 } else { 1 }); } }
    }
    v.truncate(40);
    while v.len() % 4 != 0 { v.pop(); }
    v
}
/// malformed option areas: truncated options, bad lengths, random bytes
fn gen_bad_opts(r: &mut Rng, mss: u16) -> Vec<u8> {
    let mut v = if r.chance(1, 2) { gen_opts(r, mss) } else { vec![] };
    match r.below(7) {
        0 => { let n = r.range(1, 12) as usize; v = r.bytes(n * 4); }
        1 => { if !v.is_empty() { let i = r.below(v.len() as u64) as usize; v[i] ^= 1 << r.below(8); } else { v = vec![2, 4, 5, 0xb4]; v[1] = r.below(8) as u8; } }
        2 => { let k = *r.pick(&[2u8, 3, 4, 5, 8, 9, 254]); let l = *r.pick(&[0u8, 1, 2, 3, 4, 5, 9, 10, 11, 12, 39, 40, 41, 255]); let mut o = vec![k, l]; o.extend({ let n_ = r.below(9) as usize; r.bytes(n_) }); v.splice(0..0, o); }
        3 => { let k = *r.pick(&[2u8, 3, 4, 5, 8, 9, 254]); v.push(k); }       // kind without length byte at the very end
        4 => { let mut o = ts_opt(0, 5); { let n_ = r.range(1, 9) as usize; o.truncate(n_); } v.extend(o); }
        5 => { let mut o = mss_opt(mss); { let n_ = r.range(1, 3) as usize; o.truncate(n_); } v.extend(o); }
        _ => { v.extend_from_slice(&[3, 3]); }
    }
    v.truncate(40);
    while v.len() % 4 != 0 { v.push(if r.chance(1, 2) { 0 } else { 1 }); }
    v.truncate(40);
    v
}

fn gen_window(r: &mut Rng, mss: u16, hdr: u16) -> u16 {
    let m = mss as u32;
    let k = r.range(1, 64) as u32;
    let w: u32 = match r.below(20) {
        0 => 0,
        1 => 65535,
        2 | 3 => k * m,
        4 => k * m.saturating_sub(12),
        5 => (r.range(1, 255) as u32) * 256,
        6 => *r.pick(&[256u32, 512, 1024, 2048, 4096, 8192, 16384, 32768, 65280, 61440, 768, 1280]),
        7 => k * 1500, 8 => k * 1460, 9 => k * 1448, 10 => k * 1440, 11 => k * 1428,
        12 => k * (m + 40), 13 => k * (m + 60), 14 => k * (m + hdr as u32), 15 => k * (m + 20),
        16 => *r.pick(&[2u32, 3, 5, 7, 8191, 65521, 32749, 1021, 257, 8192 + 1, 5840, 5792, 14600, 29200, 64240, 2810, 2880]),
        17 => 256 * m / 256 + 1,
        _ => r.below(65536) as u32,
    };
    (w & 0xffff) as u16
}

fn gen_tcp(r: &mut Rng, hdr: u16) -> Tcp {
    let flags = match r.below(10) { 0..=3 => 0x02, 4 | 5 => 0x12, 6 => *r.pick(FLAGSETS), 7 => 0x02 | *r.pick(&[0x08u8, 0x20, 0x40, 0x80, 0xc0, 0x28]), _ => r.below(256) as u8 };
    let mss = gen_mss(r);
    let opts = match r.below(10) { 0..=6 => gen_opts(r, mss), _ => gen_bad_opts(r, mss) };
    let z = |r: &mut Rng| -> u32 { if r.chance(1, 3) { 0 } else { r.next() as u32 | 1 } };
    let seq = z(r);
    let ack = if flags & 0x10 != 0 { if r.chance(1, 5) { 0 } else { z(r) | 1 } } else if r.chance(1, 4) { z(r) } else { 0 };
    let urg = if r.chance(1, 5) { r.below(65536) as u16 } else { 0 };
    let reserved = if r.chance(1, 6) { r.below(16) as u8 } else { 0 };
    let payload = if r.chance(1, 4) { { let n_ = r.range(1, 12) as usize; r.bytes(n_) } } else { vec![] };
    let doff = if r.chance(1, 12) { Some(r.below(16) as u8) } else { None };
    Tcp { sport: if r.chance(1, 2) { 40000 } else { 80 }, dport: if r.chance(1, 2) { 443 } else { 50000 }, seq, ack, doff, reserved, flags, win: gen_window(r, mss, hdr), urg, opts, payload }
}
fn gen_v4(r: &mut Rng) -> V4 {
    let ipopts = if r.chance(1, 5) { let n = r.range(1, 10) as usize; let mut v = vec![1u8; 4 * n]; if r.chance(1, 2) { v[4 * n - 1] = 0; } v } else { vec![] };
    V4 { ver: if r.chance(1, 20) { r.below(16) as u8 } else { 4 },
         ihl: if r.chance(1, 15) { Some(r.below(16) as u8) } else { None },
         tos: if r.chance(1, 3) { r.below(256) as u8 } else { 0 }, total: None,
         id: if r.chance(1, 3) { 0 } else { r.below(65536) as u16 },
         flags3: *r.pick(&[2u8, 2, 2, 0, 0, 6, 4, 1, 3, 7]), frag: if r.chance(1, 25) { r.range(1, 8191) as u16 } else { 0 },
         ttl: if r.chance(3, 4) { *r.pick(TTLS) } else { r.below(256) as u8 },
         proto: if r.chance(1, 30) { *r.pick(&[17u8, 1, 0, 41]) } else { 6 },
         src: if r.chance(1, 30) { [8, 0, 1, 2] } else { [10, 0, 0, 1] }, ipopts }
}
fn gen_v6(r: &mut Rng) -> V6 {
    V6 { ver: if r.chance(1, 20) { r.below(16) as u8 } else { 6 }, tc: if r.chance(1, 3) { r.below(256) as u8 } else { 0 },
         flow: if r.chance(1, 2) { 0 } else { *r.pick(&[1u32, 0xfffff, 0x10000, 0x00100, 0x80000]) }, plen: None,
         next: if r.chance(1, 25) { *r.pick(&[17u8, 0, 44, 43, 60, 58]) } else { 6 }, hop: if r.chance(3, 4) { *r.pick(TTLS) } else { r.below(256) as u8 } }
}

fn frame(r: &mut Rng, ip: &[u8], v6: bool) -> Vec<u8> {
    match r.below(6) {
        0 | 1 => { let mut f = vec![0, 1, 2, 3, 4, 5, 6, 7, 8, 9, 10, 11]; f.extend_from_slice(if v6 { &[0x86, 0xdd] } else { &[0x08, 0x00] }); f.extend_from_slice(ip); f }
        2 => ip.to_vec(),
        3 => { let mut f = vec![0x1e, 0, 0, 0]; f.extend_from_slice(ip); f }
        4 => { let mut f = vec![0, 1, 2, 3, 4, 5, 6, 7, 8, 9, 10, 11]; f.extend_from_slice(*r.pick(&[&[0x08u8, 0x06], &[0x86, 0xdd], &[0x08, 0x00], &[0x81, 0x00]])); f.extend_from_slice(ip); f }
        _ => { let mut f = vec![*r.pick(&[0x1eu8, 0x02, 0x18]), r.below(2) as u8, 0, 0]; f.extend_from_slice(ip); f }
    }
}

fn push4(out: &mut Vec<String>, b: &[u8]) { out.push(format!("4 {}", hex_or_dash(b))); }
fn push6(out: &mut Vec<String>, b: &[u8]) { out.push(format!("6 {}", hex_or_dash(b))); }
fn pushf(out: &mut Vec<String>, b: &[u8]) { out.push(format!("F {}", hex_or_dash(b))); }

fn gen(r: &mut Rng, tier: &Tier, out: &mut Vec<String>) {
    // ---- stream 1: structured packets over the header space
    for _ in 0..tier.scale(5000, 120000) {
        if r.chance(3, 5) {
            let ip = gen_v4(r);
            let hdr = ip.ihl.unwrap_or(((20 + ip.ipopts.len()) / 4) as u8) as u16;
            let t = gen_tcp(r, hdr);
            let mut b = ip.bytes(&t.bytes());
            if r.chance(1, 25) { let tl = r.below(b.len() as u64 + 8) as u16; b[2] = (tl >> 8) as u8; b[3] = tl as u8; }
            if r.chance(1, 6) { pushf(out, &frame(r, &b, false)); } else { push4(out, &b); }
        } else {
            let ip = gen_v6(r);
            let t = gen_tcp(r, 40);
            let mut b = ip.bytes(&t.bytes());
            if r.chance(1, 25) { let pl = r.below(b.len() as u64) as u16; b[4] = (pl >> 8) as u8; b[5] = pl as u8; }
            if r.chance(1, 6) { pushf(out, &frame(r, &b, true)); } else { push6(out, &b); }
        }
    }
    // ---- stream 1b: aimed at the domain of the theorems (no known class): SYN with exactly 20 well-formed option
    // bytes (the one case where mtu.rs agrees with MSS + 40/60), SYN+ACK with any well-formed options, no EOL padding,
    // quirks that come out in canonical order; windows that exercise every rule
    for _ in 0..tier.scale(2500, 40000) {
        let mss = if r.chance(1, 2) { *r.pick(&[536u16, 1360, 1400, 1440, 1452, 1460, 8960]) } else { gen_mss(r) };
        let syn = r.chance(1, 2);
        let mut o: Vec<u8> = vec![];
        let target = if syn { 20 } else { 4 * r.range(0, 10) as usize };
        let mut guard = 0;
        while o.len() < target && guard < 50 {
            guard += 1;
            let mut x = wf_option(r, mss);
            if x[0] == 3 && x[2] > 14 && r.chance(1, 2) { x[2] = 7; }
            if o.len() + x.len() <= target { o.extend(x); }
        }
        while o.len() < target { o.push(1); }
        if r.chance(1, 8) && !o.is_empty() { let n = o.len(); o[n - 1] = 0; }      // EOL as the very last byte: eol+0
        let v6 = r.chance(1, 3);
        let mut t = std_tcp(if syn { 0x02 } else { 0x12 });
        t.opts = o; t.win = gen_window(r, mss, if v6 { 40 } else { 5 });
        t.seq = if r.chance(1, 6) { 0 } else { r.next() as u32 | 1 };
        if !syn { t.ack = if r.chance(1, 6) { 0 } else { r.next() as u32 | 1 }; } else if r.chance(1, 8) { t.ack = 5; }
        if r.chance(1, 6) { t.flags |= 0x08; }
        if r.chance(1, 8) { t.flags |= 0x20; } else if r.chance(1, 8) { t.urg = 9; }
        if r.chance(1, 8) { t.flags |= *r.pick(&[0x40u8, 0x80, 0xc0]); }
        if r.chance(1, 5) { t.payload = vec![0x41; r.range(1, 5) as usize]; }
        if v6 {
            let mut ip = std_v6(); ip.hop = *r.pick(TTLS); if r.chance(1, 4) { ip.flow = 0x12345; } if r.chance(1, 8) { ip.tc = 2; }
            push6(out, &ip.bytes(&t.bytes()));
        } else {
            let mut ip = std_v4(); ip.ttl = *r.pick(TTLS);
            ip.flags3 = *r.pick(&[2u8, 2, 0, 6, 4]); ip.id = if r.chance(1, 3) { 0 } else { 0x4242 };
            if r.chance(1, 10) { ip.tos = 1; }
            if !syn && r.chance(1, 6) { ip.ipopts = vec![1, 1, 1, 1]; }
            push4(out, &ip.bytes(&t.bytes()));
        }
    }
    // ---- stream 2: malformed — every truncation and single-bit flips of a few valid packets, random bytes
    for _ in 0..tier.scale(6, 40) {
        let t = gen_tcp(r, 5);
        let b4 = std_v4().bytes(&t.bytes());
        let b6 = std_v6().bytes(&t.bytes());
        for n in 0..=b4.len() { push4(out, &b4[..n]); }
        for n in (0..=b6.len()).step_by(if tier.thorough { 1 } else { 3 }) { push6(out, &b6[..n]); }
        for bit in 0..(b4.len().min(64) * 8) { if tier.thorough || r.chance(1, 3) { let mut c = b4.clone(); c[bit / 8] ^= 1 << (bit % 8); push4(out, &c); } }
        for bit in 0..(b6.len().min(84) * 8) { if tier.thorough || r.chance(1, 5) { let mut c = b6.clone(); c[bit / 8] ^= 1 << (bit % 8); push6(out, &c); } }
        let e = frame(r, &b4, false);
        for n in 0..=e.len().min(60) { pushf(out, &e[..n]); }
    }
    for _ in 0..tier.scale(300, 5000) {
        let n = r.below(90) as usize;
        let mut b = r.bytes(n);
        if n > 0 && r.chance(2, 3) { b[0] = if r.chance(1, 2) { 0x45 } else { 0x60 }; }
        if n > 9 && r.chance(1, 2) { b[9] = 6; b[6] = 6; }
        match r.below(3) { 0 => push4(out, &b), 1 => push6(out, &b), _ => pushf(out, &b) }
    }
    // ---- stream 3: exhaustive-small sweeps
    let lin = linux_opts(1460, 7);
    // all 256 flag bytes x reserved nibble {0,1,8} x {v4,v6} x {ack zero/non-zero}
    for f in 0..=255u8 { for res in [0u8, 1, 8] { for ack in [0u32, 7] {
        let mut t = std_tcp(f); t.reserved = res; t.ack = ack; t.opts = lin.clone();
        push4(out, &std_v4().bytes(&t.bytes()));
        if res == 0 { push6(out, &std_v6().bytes(&t.bytes())); }
    } } }
    // all 256 TTLs / hop limits
    for ttl in 0..=255u8 {
        let mut ip = std_v4(); ip.ttl = ttl; let mut t = std_tcp(2); t.opts = lin.clone(); push4(out, &ip.bytes(&t.bytes()));
        let mut ip6 = std_v6(); ip6.hop = ttl; push6(out, &ip6.bytes(&std_tcp(0x12).bytes()));
    }
    // IPv4: all flag triples x id zero/non-zero x ecn 0..3 x frag 0/1 ; IPv6: tc low bits x flow
    for fl in 0..8u8 { for id in [0u16, 1, 0x100] { for ecn in 0..4u8 { for frag in [0u16, 1] {
        let mut ip = std_v4(); ip.flags3 = fl; ip.id = id; ip.tos = ecn | 0x10; ip.frag = frag;
        let mut t = std_tcp(2); t.opts = windows_opts(1460, 8); push4(out, &ip.bytes(&t.bytes()));
    } } } }
    for tc in [0u8, 1, 2, 3, 4, 0xfc, 0xff] { for flow in [0u32, 1, 0xf0000, 0xfffff] { for fl in [0x02u8, 0x12, 0xc2] {
        let mut ip = std_v6(); ip.tc = tc; ip.flow = flow; let mut t = std_tcp(fl); t.opts = lin.clone(); push6(out, &ip.bytes(&t.bytes()));
    } } }
    // seq / ack / urg zero vs non-zero x the flags that matter
    for seq in [0u32, 1] { for ack in [0u32, 1, 0x01000000] { for urg in [0u16, 1, 0x100] { for fl in [0x02u8, 0x12, 0x10, 0x04, 0x14, 0x22, 0x32, 0x0a] {
        let mut t = std_tcp(fl); t.seq = seq; t.ack = ack; t.urg = urg; t.opts = mss_opt(1460);
        push4(out, &std_v4().bytes(&t.bytes()));
    } } } }
    // IHL 0..15 with and without the matching number of option bytes, total_length lies
    for ihl in 0..16u8 { for have in [0usize, 4, 20, 40] { for tl in [None, Some(0u16), Some(20), Some(39), Some(40), Some(44), Some(60), Some(65535)] {
        let mut ip = std_v4(); ip.ihl = Some(ihl); ip.ipopts = vec![1; have]; ip.total = tl;
        let mut t = std_tcp(2); t.opts = mss_opt(1400); t.win = *r.pick(&[2810u16, 2880, 1400 * 4, 1405 * 3, 1440, 1420]);
        push4(out, &ip.bytes(&t.bytes()));
    } } }
    // data offset 0..15 x segment lengths
    for doff in 0..16u8 { for extra in [0usize, 1, 3, 4, 8, 20, 24, 40, 44] { for fl in [0x02u8, 0x12] {
        let mut t = std_tcp(fl); t.doff = Some(doff); t.opts = { let mut o = mss_opt(1460); o.extend(vec![1u8; 40]); o.truncate(extra); o };
        push4(out, &std_v4().bytes(&t.bytes()));
        if fl == 2 { push6(out, &std_v6().bytes(&t.bytes())); }
    } } }
    // every (kind, length byte) pair at position 0 of an 8-byte option area (quick: the interesting kinds)
    let kinds: Vec<u8> = if tier.thorough { (0..=255u8).collect() } else { vec![0, 1, 2, 3, 4, 5, 6, 8, 9, 30, 255] };
    for k in kinds { for l in 0..=255u8 {
        if !tier.thorough && l > 44 && l < 250 && l % 16 != 0 { continue; }
        let mut t = std_tcp(2); t.opts = vec![k, l, 0x05, 0xb4, 0x01, 0x02, 0x00, 0x00];
        push4(out, &std_v4().bytes(&t.bytes()));
    } }
    // EOL + k padding, zero and non-zero, after each typical layout
    for k in 0..8usize { for nz in [None, Some(0usize), Some(1), Some(7)] {
        let mut o = mss_opt(1460); o.extend_from_slice(&[4, 2, 0]); o.extend(vec![0u8; k]);
        if let Some(p) = nz { if p < k { let n = o.len(); o[n - k + p] = 9; } }
        while o.len() % 4 != 0 { o.push(0); }
        let mut t = std_tcp(2); t.opts = o; push4(out, &std_v4().bytes(&t.bytes()));
    } }
    // window x MSS grid, with/without timestamps, v4/v6, header length in words 5..7
    let wins: Vec<u16> = { let mut w = vec![0u16, 1, 255, 256, 512, 768, 1024, 2048, 4096, 8192, 16384, 32768, 65280, 65535, 1500, 3000, 1460, 2920, 1448, 2896, 1440, 2880, 1428, 2856, 2810, 5840, 5792, 14600, 29200, 64240, 8191, 65521];
        for m in [536u32, 1400, 1460, 1440] { for k in [1u32, 2, 4, 10, 44, 45, 255, 256] { for d in [m, m - 12, m + 40, m + 60, m + 5, m + 6, m + 20] { let x = k * d; if x <= 65535 { w.push(x as u16); } } } }
        w.sort(); w.dedup(); w };
    let grid_mss: &[u16] = if tier.thorough { MSSES } else { &[0, 99, 100, 536, 1400, 1460, 65496, 65535] };
    for &m in grid_mss { for &w in &wins { for ts in [false, true] {
        let mut o = mss_opt(m); if ts { o.extend_from_slice(&[1, 1]); o.extend(ts_opt(5, 0)); }
        let mut t = std_tcp(2); t.win = w; t.opts = o.clone();
        push4(out, &std_v4().bytes(&t.bytes()));
        if tier.thorough || w % 3 == 0 { push6(out, &std_v6().bytes(&t.bytes())); }
        if tier.thorough && m == 1400 { let mut ip = std_v4(); ip.ipopts = vec![1, 1, 1, 0]; push4(out, &ip.bytes(&t.bytes())); }
    } } }
    // multiplier boundary 254/255/256 (only reachable with a small MSS), for every divisor family
    for m in [100u32, 101, 112, 128, 200, 216, 245, 256, 257] { for k in [254u32, 255, 256] { for d in [m, m - 12, m + 40, m + 60, m + 5, m + 20] { for ts in [false, true] {
        let w = k * d; if w > 65535 { continue; }
        let mut o = mss_opt(m as u16); if ts { o.extend_from_slice(&[1, 1]); o.extend(ts_opt(5, 0)); }
        let mut t = std_tcp(0x12); t.ack = 9; t.win = w as u16; t.opts = o;
        push4(out, &std_v4().bytes(&t.bytes())); push6(out, &std_v6().bytes(&t.bytes()));
    } } } }
    // every MTU of the table (and neighbours) as MSS + 40 with a 20-byte option area (the case where mtu.rs is right)
    for m in [256u16, 552, 576, 1240, 1280, 1300, 1400, 1420, 1440, 1450, 1452, 1454, 1460, 1470, 1476, 1480, 1490, 1492, 1496, 1500, 1656, 3924, 9000, 16384, 16436, 1501, 1499] {
        let mut t = std_tcp(2); t.opts = linux_opts(m - 40, 7); push4(out, &std_v4().bytes(&t.bytes()));
        let mut t6 = std_tcp(2); t6.opts = linux_opts(m - 60, 7); push6(out, &std_v6().bytes(&t6.bytes()));
        let mut tw = std_tcp(2); tw.opts = windows_opts(m - 40, 8); push4(out, &std_v4().bytes(&tw.bytes()));
    }
    // framing: the same packet under every link type, ethertype / version-nibble mismatches, the 8.0.x.x raw packet
    { let mut t = std_tcp(2); t.opts = lin.clone(); let b4 = std_v4().bytes(&t.bytes()); let b6 = std_v6().bytes(&t.bytes());
      let mut s = std_v4(); s.src = [8, 0, 69, 0]; let b8 = s.bytes(&t.bytes());
      let eth = |et: [u8; 2], ip: &[u8]| { let mut f = vec![0u8; 12]; f.extend_from_slice(&et); f.extend_from_slice(ip); f };
      for ip in [&b4, &b6, &b8] {
        pushf(out, ip); pushf(out, &eth([8, 0], ip)); pushf(out, &eth([0x86, 0xdd], ip)); pushf(out, &eth([8, 6], ip));
        let mut n = vec![0x1e, 0, 0, 0]; n.extend_from_slice(ip); pushf(out, &n);
        let mut n2 = vec![0x1e, 1, 0, 0]; n2.extend_from_slice(ip); pushf(out, &n2);
        let mut n3 = vec![0x18, 0, 0, 0]; n3.extend_from_slice(ip); pushf(out, &n3);
      }
    }
}

fn main() { main_cli(gen, run) }
