From Coq Require Import List Bool Arith Lia.
Import ListNotations.

Section Hdr.
  Variables (Nm V : Type).
  Variable nm_eqb : Nm -> Nm -> bool.
  Variable v_eqb : option V -> option V -> bool.
  Hypothesis nm_eqb_eq : forall a b, nm_eqb a b = true <-> a = b.
  Hypothesis v_eqb_eq : forall a b, v_eqb a b = true <-> a = b.

  Record hdr := { opt : bool; name : Nm; value : option V }.

  (* transcription of distance_header's three loops: every iteration advances the signature *)
  Fixpoint errs (obs sig : list hdr) : nat :=
    match sig with
    | [] => length obs
    | sh :: sig' =>
        match obs with
        | [] => (if opt sh then 0 else 1) + errs [] sig'
        | oh :: obs' =>
            if nm_eqb (name oh) (name sh) && v_eqb (value oh) (value sh) then errs obs' sig'
            else if nm_eqb (name oh) (name sh) then (if opt sh then 0 else 1) + errs obs' sig'
            else if opt sh then errs obs sig'
            else 1 + errs obs sig'
        end
    end.

  Inductive inst : list hdr -> list hdr -> Prop :=
  | inst_nil : inst [] []
  | inst_keep sh oh sig obs :
      name oh = name sh -> value oh = value sh -> inst sig obs -> inst (sh :: sig) (oh :: obs)
  | inst_drop sh sig obs : opt sh = true -> inst sig obs -> inst (sh :: sig) obs.

  Lemma inst_head_in sig oh obs : inst sig (oh :: obs) -> In (name oh) (map name sig).
  Proof.
    intro H. remember (oh :: obs) as l eqn:E. revert oh obs E.
    induction H as [|sh oh' sig obs' Hn Hv H IH|sh sig obs' Ho H IH]; intros oh obs E.
    - discriminate.
    - injection E as -> ->. left. symmetry. exact Hn.
    - right. eapply IH. exact E.
  Qed.

  Theorem instance_zero_errors : forall sig obs,
    NoDup (map name sig) -> inst sig obs -> errs obs sig = 0.
  Proof.
    intros sig obs Hnd H. induction H as [|sh oh sig obs Hn Hv H IH|sh sig obs Ho H IH].
    - reflexivity.
    - cbn [errs]. inversion Hnd as [|? ? _ Hnd']; subst.
      assert (E1 : nm_eqb (name oh) (name sh) = true) by (apply nm_eqb_eq; exact Hn).
      assert (E2 : v_eqb (value oh) (value sh) = true) by (apply v_eqb_eq; exact Hv).
      rewrite E1, E2. cbn. apply IH. exact Hnd'.
    - cbn [errs map] in *. inversion Hnd as [|? ? Hnotin Hnd']; subst.
      destruct obs as [|oh obs'].
      + rewrite Ho. cbn. apply IH. exact Hnd'.
      + assert (Hne : nm_eqb (name oh) (name sh) = false).
        { destruct (nm_eqb (name oh) (name sh)) eqn:E; [|reflexivity].
          apply nm_eqb_eq in E. exfalso. apply Hnotin. rewrite <- E.
          eapply inst_head_in. exact H. }
        rewrite Hne. cbn. rewrite Ho. apply IH. exact Hnd'.
  Qed.

  (* the NoDup side condition is necessary *)
End Hdr.
Print Assumptions instance_zero_errors.
