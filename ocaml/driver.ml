(* Generic line driver: the whole case interpreter (run_line) is extracted Gallina;
   this file only converts between OCaml strings and the extracted `byte list`.
   Compiled with  -open <Cxx>_model  so run_line, b2n, n2b and the N/positive
   constructors come from the extracted module.  No Obj.magic, no Extract Constant. *)
let rec pos_of_int i =
  if i = 1 then XH else if i land 1 = 0 then XO (pos_of_int (i lsr 1)) else XI (pos_of_int (i lsr 1))
let n_of_int i = if i = 0 then N0 else Npos (pos_of_int i)
let rec int_of_pos = function XH -> 1 | XO p -> 2 * int_of_pos p | XI p -> 2 * int_of_pos p + 1
let int_of_n = function N0 -> 0 | Npos p -> int_of_pos p
let table = Array.init 256 (fun i -> n2b (n_of_int i))
let bytes_of_string s =
  let r = ref [] in
  for i = String.length s - 1 downto 0 do r := table.(Char.code s.[i]) :: !r done; !r
let string_of_bytes l =
  let b = Buffer.create 256 in
  List.iter (fun x -> Buffer.add_char b (Char.chr (int_of_n (b2n x)))) l; Buffer.contents b
let () =
  try
    while true do
      let l = input_line stdin in
      let out = try string_of_bytes (run_line (bytes_of_string l))
                with Stack_overflow -> "MODELCRASH\t-\t0" | Out_of_memory -> "MODELCRASH\t-\t0" in
      print_string out; print_char '\n'
    done
  with End_of_file -> ()
