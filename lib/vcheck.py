#!/usr/bin/env python3
"""Orchestrator for one property check (see DESIGN.md section 2.4).

  A. proof obligations: `make` of coq/Props/<id>.vo (full .vo), Print Assumptions parsed,
     forbidden-word scan of the whole development
  B. correspondence: IMPL (Rust harness built against /repo's working tree) vs MODEL
     (extracted Gallina `run_line`) on corpus + generated cases; a sample is re-evaluated
     inside Coq with vm_compute to check the extraction step
  C. known findings replayed on IMPL
  D. verdict / search for a failing input (SPEC column as oracle) / evidence
"""
import fcntl, hashlib, json, os, re, shutil, subprocess, sys, time

VERIF = os.path.dirname(os.path.dirname(os.path.abspath(__file__)))
COQ = os.path.join(VERIF, 'coq')
BUILD = os.path.join(VERIF, 'build')
HARNESS = os.path.join(VERIF, 'harness')
FORBIDDEN = ['Admitted', 'admit', 'Axiom', 'Axioms', 'Parameter', 'Parameters', 'Conjecture', 'Conjectures',
             'Unset Guard', 'bypass_check', 'type-in-type', 'impredicative-set', 'Admit Obligations',
             'Unset Positivity', 'Unset Universe']
STMT_RE = re.compile(r'^\s*(?:Local\s+|Global\s+|#\[[^\]]*\]\s*)*(Theorem|Lemma|Corollary|Example|Fact|Proposition|Remark)\s+([A-Za-z0-9_\']+)', re.M)
ENV = dict(os.environ, CARGO_NET_OFFLINE='true', CARGO_TARGET_DIR=os.path.join(BUILD, 'target'))


def sh(cmd, timeout=3600, cwd=None, env=None, stdin=None):
    p = subprocess.run(cmd, shell=isinstance(cmd, str), cwd=cwd, env=env or ENV, stdin=stdin,
                       stdout=subprocess.PIPE, stderr=subprocess.STDOUT, timeout=timeout, text=True, errors='replace')
    return p.returncode, p.stdout


class Lock:
    def __init__(self, name):
        os.makedirs(BUILD, exist_ok=True)
        self.f = open(os.path.join(BUILD, name + '.lock'), 'w')
    def __enter__(self):
        fcntl.flock(self.f, fcntl.LOCK_EX)
    def __exit__(self, *a):
        fcntl.flock(self.f, fcntl.LOCK_UN)


def load_prop(pid):
    with open(os.path.join(VERIF, 'props', pid + '.json')) as f:
        return json.load(f)


def strip_comments(src):
    out, depth, i, n = [], 0, 0, len(src)
    in_str = False
    while i < n:
        c = src[i]
        if depth == 0 and c == '"':
            in_str = not in_str
            out.append(c); i += 1; continue
        if not in_str and src.startswith('(*', i):
            depth += 1; i += 2; continue
        if not in_str and depth > 0 and src.startswith('*)', i):
            depth -= 1; i += 2; continue
        if depth == 0:
            out.append(c)
        i += 1
    return ''.join(out)


def strip_strings(src):
    return re.sub(r'"(?:[^"]|"")*"', '""', src)


def all_v_files():
    res = []
    for root, _, files in os.walk(COQ):
        for f in files:
            if f.endswith('.v'):
                res.append(os.path.relpath(os.path.join(root, f), COQ))
    return sorted(res)


def dep_closure(vfile):
    seen, todo = set(), [vfile]
    while todo:
        f = todo.pop()
        if f in seen or not os.path.exists(os.path.join(COQ, f)):
            continue
        seen.add(f)
        src = strip_comments(open(os.path.join(COQ, f)).read())
        for m in re.finditer(r'\bRequire\s+(?:Import\b|Export\b)?', src):
            k = m.end()
            e = k
            while e < len(src) and not (src[e] == '.' and (e + 1 >= len(src) or src[e + 1].isspace())):
                e += 1
            for name in src[k:e].split():
                name = name[3:] if name.startswith('HN.') else name
                cand = name.replace('.', '/') + '.v'
                if os.path.exists(os.path.join(COQ, cand)):
                    todo.append(cand)
    return sorted(seen)


def forbidden_scan():
    hits = []
    for f in all_v_files():
        src = strip_strings(strip_comments(open(os.path.join(COQ, f)).read()))
        for w in FORBIDDEN:
            if re.search(r'(?<![A-Za-z0-9_\'])' + re.escape(w) + r'(?![A-Za-z0-9_\'])', src):
                hits.append('%s: %s' % (f, w))
    return hits


def ensure_makefile():
    files = all_v_files()
    proj = '-Q . HN\n-arg -w -arg -notation-overridden,-deprecated-hint-without-locality,-deprecated-syntactic-definition,-ambiguous-paths\n' + '\n'.join(files) + '\n'
    p = os.path.join(COQ, '_CoqProject')
    old = open(p).read() if os.path.exists(p) else ''
    if old != proj or not os.path.exists(os.path.join(COQ, 'Makefile')):
        open(p, 'w').write(proj)
        rc, out = sh('coq_makefile -f _CoqProject -o Makefile', cwd=COQ)
        if rc != 0:
            raise RuntimeError('coq_makefile failed: ' + out)


def gen_data():
    tool = os.path.join(VERIF, 'tools', 'gen_data.py')
    if not os.path.exists(tool):
        return True, ''
    rc, out = sh([sys.executable, tool], timeout=600)
    return rc == 0, out


def coq_build(targets, timeout, force=()):
    with Lock('coq'):
        ensure_makefile()
        for t in force:
            for ext in ('.vo', '.vos', '.vok', '.glob'):
                try:
                    os.remove(os.path.join(COQ, t[:-2] + ext))
                except OSError:
                    pass
        try:
            rc, out = sh(['timeout', str(timeout), 'make', '-j16', '-k'] + targets, cwd=COQ, timeout=timeout + 60)
        except subprocess.TimeoutExpired:
            rc, out = 124, 'make timed out'
    return rc, out


def parse_assumptions(log):
    """returns (number of Print Assumptions blocks, list of axiom names)"""
    closed = len(re.findall(r'^Closed under the global context', log, re.M))
    axioms = []
    blocks = 0
    lines = log.splitlines()
    i = 0
    while i < len(lines):
        if lines[i].startswith('Axioms:'):
            blocks += 1
            i += 1
            while i < len(lines):
                m = re.match(r'^([A-Za-z_][\w.\']*)\s*:', lines[i])
                # a long axiom is printed with its type wrapped onto the next (indented) line
                m2 = re.match(r'^([A-Za-z_][\w.\']*)\s*$', lines[i])
                if m:
                    axioms.append(m.group(1))
                elif m2 and i + 1 < len(lines) and re.match(r'^\s+:', lines[i + 1]):
                    axioms.append(m2.group(1))
                elif not lines[i].startswith(' '):
                    break
                i += 1
            continue
        i += 1
    return closed + blocks, sorted(set(axioms))


def build_driver(model_ml):
    d = os.path.join(BUILD, 'ocaml', model_ml)
    os.makedirs(d, exist_ok=True)
    src_ml = os.path.join(COQ, 'Extract', model_ml + '.ml')
    if not os.path.exists(src_ml):
        return None, 'extracted file missing: ' + src_ml
    drv = os.path.join(d, 'drv')
    stamp = hashlib.sha256(open(src_ml, 'rb').read() + open(os.path.join(VERIF, 'ocaml', 'driver.ml'), 'rb').read()).hexdigest()
    sp = os.path.join(d, 'stamp')
    if os.path.exists(drv) and os.path.exists(sp) and open(sp).read() == stamp:
        return drv, ''
    with Lock('ocaml_' + model_ml):
        shutil.copy(src_ml, d)
        shutil.copy(src_ml + 'i', d)
        with open(os.path.join(d, 'main.ml'), 'w') as f:
            f.write('open %s\n' % model_ml)
            f.write(open(os.path.join(VERIF, 'ocaml', 'driver.ml')).read())
        rc, out = sh(['ocamlfind', 'ocamlopt', '-w', '-a', '-inline', '100',
                      model_ml + '.mli', model_ml + '.ml', 'main.ml', '-o', 'drv'], cwd=d, timeout=900)
        if rc != 0:
            return None, out
        open(sp, 'w').write(stamp)
    return drv, ''


def build_harness(pkg, features=None, rustflags=None):
    env = dict(ENV)
    if rustflags:
        env['RUSTFLAGS'] = rustflags
    lock_src = '/repo/Cargo.lock'
    with Lock('cargo'):
        hl = os.path.join(HARNESS, 'Cargo.lock')
        if not os.path.exists(hl) and os.path.exists(lock_src):
            shutil.copy(lock_src, hl)
        cmd = ['cargo', 'build', '--release', '--offline', '-p', pkg]
        if features:
            cmd += ['--features', ','.join(features)]
        rc, out = sh(cmd, cwd=HARNESS, env=env, timeout=1800)
    return rc == 0, out, os.path.join(BUILD, 'target', 'release', pkg)


def run_sharded(cmd, lines, shards=16, timeout=3600, env=None):
    """run `cmd` (stdin lines -> stdout lines) over shards in parallel, preserving order"""
    if not lines:
        return []
    n = len(lines)
    size = (n + shards - 1) // shards
    procs = []
    for i in range(0, n, size):
        p = subprocess.Popen(cmd, stdin=subprocess.PIPE, stdout=subprocess.PIPE, stderr=subprocess.DEVNULL, text=True,
                             env=env or ENV)
        procs.append((p, lines[i:i + size]))
    # feed through threads to avoid pipe deadlocks
    import threading
    outs = [None] * len(procs)
    def work(k):
        p, ls = procs[k]
        try:
            o, _ = p.communicate('\n'.join(ls) + '\n', timeout=timeout)
        except subprocess.TimeoutExpired:
            p.kill(); o = ''
        got = o.split('\n')
        if got and got[-1] == '':
            got.pop()
        if len(got) != len(ls):
            got = got + ['CRASH'] * (len(ls) - len(got))
        outs[k] = got[:len(ls)]
    ths = [threading.Thread(target=work, args=(k,)) for k in range(len(procs))]
    [t.start() for t in ths]; [t.join() for t in ths]
    return [x for o in outs for x in o]


SHA_RE = re.compile(r'\{sha12:([0-9a-f]*)\}')


def post_model(prop, hbin, cases, model_lines):
    """steps the model leaves to a real library: {sha12:<hex>} -> first 12 hex digits of SHA-256 (python hashlib);
    props with "post": true additionally pipe the model lines through `<harness> post <cases-file>`"""
    out = [SHA_RE.sub(lambda m: hashlib.sha256(bytes.fromhex(m.group(1))).hexdigest()[:12], l) for l in model_lines]
    if prop.get('post') and hbin:
        d = os.path.join(BUILD, 'run', prop['id'])
        os.makedirs(d, exist_ok=True)
        cf = os.path.join(d, 'post_cases.txt')
        open(cf, 'w').write('\n'.join(cases) + '\n')
        p = subprocess.run([hbin, 'post', cf], input='\n'.join(out) + '\n', stdout=subprocess.PIPE, stderr=subprocess.DEVNULL, text=True, env=ENV)
        got = p.stdout.split('\n')
        if got and got[-1] == '':
            got.pop()
        if len(got) == len(out):
            out = got
        else:
            out = ['CRASH'] * len(out)
    return out


def run_model(prop, hbin, drv, cases, shards=16):
    raw = run_sharded(['bash', '-c', 'ulimit -s unlimited 2>/dev/null; exec "$0"', drv], cases, shards=shards, timeout=prop.get('run_timeout', 3000))
    return raw, post_model(prop, hbin, cases, raw)


def coq_escape(s):
    return s.replace('"', '""')


def coq_sample_check(prop, cases, model_lines, timeout=600):
    """re-evaluate a sample of cases with vm_compute inside Coq and compare with the extracted driver"""
    idx = [i for i, c in enumerate(cases) if len(c) < prop.get('coq_sample_maxlen', 1500) and all(32 <= ord(ch) < 127 for ch in c) and
           all(32 <= ord(ch) < 127 or ch == '\t' for ch in model_lines[i])]
    if not idx:
        return True, 0, 'no sample'
    step = max(1, len(idx) // prop.get('coq_sample', 40))
    idx = idx[::step][:prop.get('coq_sample', 40)]
    d = os.path.join(BUILD, 'run', prop['id'])
    os.makedirs(d, exist_ok=True)
    mod = prop['coq_extract'][:-2].replace('/', '.')
    with open(os.path.join(d, 'sample.v'), 'w') as f:
        f.write('From Coq Require Import List.\nFrom Coq Require Import Strings.Byte.\nFrom HN Require Import Base.Bytes %s.\nImport ListNotations.\n' % mod)
        f.write('Definition tabb : bytes := [x09].\n')
        f.write('Definition sample_cases : list (bytes * bytes) := [\n')
        rows = []
        for i in idx:
            parts = model_lines[i].split('\t')
            expect = ' ++ tabb ++ '.join('bs "%s"' % coq_escape(p) for p in parts)
            rows.append('  (bs "%s", %s)' % (coq_escape(cases[i]), expect))
        f.write(';\n'.join(rows))
        f.write('].\n')
        f.write('Definition sample_ok := forallb (fun ce => bytes_eqb (%s.run_line (fst ce)) (snd ce)) sample_cases.\n' % mod.split('.')[-1])
        f.write('Eval vm_compute in sample_ok.\n')
    rc, out = sh('ulimit -s unlimited 2>/dev/null; timeout %d coqc -noglob -Q %s HN sample.v' % (timeout, COQ), cwd=d, timeout=timeout + 30)
    ok = rc == 0 and re.search(r'=\s*true', out) is not None
    return ok, len(idx), out[-2000:]


def split3(line):
    parts = line.split('\t')
    if len(parts) >= 3:
        return parts[0], parts[1], parts[2].strip() == '1'
    return line, '-', False


def impl_main(line):
    """IMPL line may carry direct-oracle fields after a tab: `result<TAB>!message`"""
    parts = line.split('\t')
    direct = [p[1:] for p in parts[1:] if p.startswith('!')]
    return parts[0], direct


def spec_differs(impl, spec, wc):
    """IMPL vs SPEC; with a wildcard rule {"sep":";","token":"*"} the SPEC may leave positions open"""
    if not wc:
        return impl != spec
    a, b = impl.split(wc['sep']), spec.split(wc['sep'])
    if len(a) != len(b):
        return True
    return any(y != wc['token'] and x != y for x, y in zip(a, b))


def evaluate(cases, impl_lines, model_lines, wc=None):
    corr_bad, spec_viol, direct = [], [], []
    known_hits = 0
    for i, c in enumerate(cases):
        impl, d = impl_main(impl_lines[i])
        model, spec, known = split3(model_lines[i])
        if d:
            direct.append((i, d))
        if impl != model:
            corr_bad.append(i)
        if spec != '-' and spec_differs(impl, spec, wc):
            if known and impl == model:
                known_hits += 1
            else:
                spec_viol.append(i)
    return corr_bad, spec_viol, direct, known_hits


def write_replay(pid, seed, kind, payload):
    d = os.path.join(BUILD, 'replay')
    os.makedirs(d, exist_ok=True)
    path = os.path.join(d, '%s_seed%s_%s.json' % (pid, seed, kind))
    with open(path, 'w') as f:
        json.dump(payload, f, indent=1)
    return path


def replay(pid, path):
    prop = load_prop(pid); prop['id'] = pid
    payload = json.load(open(path))
    case = payload.get('case')
    if case is None:
        print('replay file names no concrete case:', payload.get('broken'))
        return 0
    ok, out, hbin = build_harness(prop['harness'], prop.get('features'), prop.get('rustflags'))
    drv, _ = build_driver(prop['model_ml'])
    impl = run_sharded([hbin, 'run'], [case], shards=1) if ok else ['<harness build failed>']
    model = run_model(prop, hbin, drv, [case], shards=1)[1] if drv else ['<no driver>']
    m, s, k = split3(model[0])
    print('case :', case[:2000])
    print('IMPL :', impl[0]); print('MODEL:', m); print('SPEC :', s); print('known class:', k)
    return 0


def main(argv):
    pid = argv[1]
    tier = os.environ.get('VERIF_TIER', 'quick')
    if '--tier' in argv:
        tier = argv[argv.index('--tier') + 1]
    if '--replay' in argv:
        return replay(pid, argv[argv.index('--replay') + 1])
    seed = int(os.environ.get('VERIF_SEED', '1') or 1)
    t0 = time.time()
    prop = load_prop(pid); prop['id'] = pid
    os.makedirs(os.path.join(VERIF, 'evidence'), exist_ok=True)
    rundir = os.path.join(BUILD, 'run', pid)
    os.makedirs(rundir, exist_ok=True)
    notes, broken = [], []

    # ---- A. proof obligations ----
    gd_ok, gd_out = gen_data()
    if not gd_ok:
        broken.append('regenerated data: tools/gen_data.py failed: ' + gd_out[-500:])
    targets = [prop['coq_props'][:-2] + '.vo', prop['coq_extract'][:-2] + '.vo']
    rc, log = coq_build(targets, prop.get('coq_timeout', 1500), force=[prop['coq_props']])
    open(os.path.join(rundir, 'coq.log'), 'w').write(log)
    props_vo = os.path.exists(os.path.join(COQ, prop['coq_props'][:-2] + '.vo'))
    extract_vo = os.path.exists(os.path.join(COQ, prop['coq_extract'][:-2] + '.vo'))
    props_src = strip_comments(open(os.path.join(COQ, prop['coq_props'])).read())
    want_pa = len(re.findall(r'Print\s+Assumptions', props_src))
    got_pa, axioms = parse_assumptions(log)
    allowed = set(prop.get('allowed_axioms', []))
    proof_ok = True
    if not props_vo:
        proof_ok = False
        m = re.search(r'File "([^"]+)", line (\d+)[^\n]*\n(?:.*\n){0,6}?Error:[^\n]*(?:\n[^\n]*){0,4}', log)
        broken.append('proof obligation: %s does not compile: %s' % (prop['coq_props'], (m.group(0) if m else log[-800:]).strip()[:900]))
    else:
        if got_pa != want_pa:
            proof_ok = False
            broken.append('Print Assumptions: expected %d reports, saw %d' % (want_pa, got_pa))
        extra = [a for a in axioms if a not in allowed]
        if extra:
            proof_ok = False
            broken.append('axioms outside the allow-list: ' + ', '.join(extra))
    hits = forbidden_scan()
    if hits:
        proof_ok = False
        broken.append('forbidden words in development: ' + '; '.join(hits[:10]))
    closure = dep_closure(prop['coq_props'])
    stmts, qeds = [], 0
    for f in closure:
        src = strip_comments(open(os.path.join(COQ, f)).read())
        stmts += ['%s:%s' % (f, m.group(2)) for m in STMT_RE.finditer(src)]
        qeds += len(re.findall(r'\b(Qed|Defined)\s*\.', src))
    obligations = len(stmts)
    discharged = obligations if (props_vo and qeds >= obligations) else 0
    prop_theorems = [m.group(2) for m in STMT_RE.finditer(props_src)]

    # ---- B. correspondence ----
    ok_h, hout, hbin = build_harness(prop['harness'], prop.get('features'), prop.get('rustflags'))
    if not ok_h:
        broken.append('harness does not build against /repo: ' + hout[-1500:])
    drv, dout = (build_driver(prop['model_ml']) if extract_vo else (None, 'extract target not built'))
    if drv is None:
        broken.append('model driver unavailable: ' + dout[-500:])
    kf_all = json.load(open(os.path.join(VERIF, 'known_findings.json')))['findings'] if os.path.exists(os.path.join(VERIF, 'known_findings.json')) else []
    kfs = [k for k in kf_all if k['property'] == pid]
    corpus = []
    cdir = os.path.join(VERIF, 'corpus', pid)
    if os.path.isdir(cdir):
        for fn in sorted(os.listdir(cdir)):
            corpus += [l for l in open(os.path.join(cdir, fn)).read().split('\n') if l and not l.startswith('#')]
    fixed_cases = [c for k in kfs if k['status'] == 'fixed' for c in k.get('cases', [])]
    cases, impl_lines, model_lines = [], [], []
    stats = {}
    corr_bad = spec_viol = direct = []
    known_hits = 0
    sample_n = 0
    if ok_h:
        # thorough tier: several generator seeds (the first one is VERIF_SEED itself), duplicates dropped
        gen_seeds = [seed] + ([seed * 7919 + k for k in range(1, prop.get('thorough_seeds', 6))] if tier == 'thorough' else [])
        generated, seen_lines = [], set()
        for gs in gen_seeds:
            rc, gen_out = sh([hbin, 'gen', str(gs), tier], timeout=1800)
            for l in gen_out.split('\n'):
                if l and l not in seen_lines:
                    seen_lines.add(l); generated.append(l)
        cases = fixed_cases + corpus + generated
        stats = {'corpus': len(corpus), 'fixed_finding_cases': len(fixed_cases), 'generated': len(generated), 'generator_seeds': gen_seeds}
        env = dict(ENV); env.update(prop.get('run_env', {}))
        impl_lines = run_sharded([hbin, 'run'], cases, shards=prop.get('impl_shards', 1), timeout=prop.get('run_timeout', 3000), env=env)
        if drv:
            raw_model_lines, model_lines = run_model(prop, hbin, drv, cases)
            corr_bad, spec_viol, direct, known_hits = evaluate(cases, impl_lines, model_lines, prop.get('spec_wildcard'))
            if corr_bad:
                i = min(corr_bad, key=lambda j: len(cases[j]))
                broken.append('correspondence MODEL vs IMPL: %d of %d cases differ; shortest: case=%r impl=%r model=%r'
                              % (len(corr_bad), len(cases), cases[i][:300], impl_lines[i][:300], model_lines[i][:300]))
            if props_vo and not corr_bad:
                ok_s, sample_n, sout = coq_sample_check(prop, cases, raw_model_lines)
                if not ok_s:
                    broken.append('extraction cross-check: vm_compute inside Coq disagrees with the extracted driver: ' + sout[-400:])
            bad_model = [i for i, m in enumerate(model_lines) if m.startswith('BADCASE') or m.startswith('MODELCRASH') or m == 'CRASH']
            if bad_model:
                broken.append('model could not interpret %d case lines, first: %r -> %r' % (len(bad_model), cases[bad_model[0]][:200], model_lines[bad_model[0]][:100]))
        else:
            direct = [(i, impl_main(l)[1]) for i, l in enumerate(impl_lines) if impl_main(l)[1]]

    # ---- C. known findings ----
    kf_lines = []
    if ok_h and drv:
        for k in kfs:
            if k['status'] != 'open':
                continue
            kc = k.get('cases', [])
            if not kc:
                continue
            il = run_sharded([hbin, 'run'], kc, shards=1)
            _, ml = run_model(prop, hbin, drv, kc, shards=1)
            still = 0
            for c, a, b in zip(kc, il, ml):
                impl, _ = impl_main(a)
                model, spec, known = split3(b)
                if impl == model and spec != '-' and impl != spec and known:
                    still += 1
                elif impl != model:
                    broken.append('known finding %s: IMPL no longer behaves as the model documents on %r (impl=%r model=%r)' % (k['id'], c[:200], impl[:200], model[:200]))
                elif not known and impl != spec:
                    broken.append('known finding %s: witness %r is outside its documented class' % (k['id'], c[:200]))
            if still:
                kf_lines.append('KNOWN-FINDING: property=%s %s' % (pid, k['what']))

    # ---- D. verdict ----
    violations = 0
    verdict_lines = []
    if direct:
        i, d = direct[0]
        path = write_replay(pid, seed, 'direct', {'property': pid, 'kind': 'impl-level oracle', 'case': cases[i], 'impl': impl_lines[i], 'message': d})
        verdict_lines.append('VIOLATION property=%s replay=%s' % (pid, path)); violations += 1
    elif broken or spec_viol:
        # search: SPEC oracle vs IMPL over what was run, then further seeds at thorough size
        found = None
        if spec_viol:
            i = min(spec_viol, key=lambda j: len(cases[j])); found = (cases[i], impl_lines[i], model_lines[i])
        elif ok_h and drv:
            for extra in range(1, prop.get('search_seeds', 4) + 1):
                rc, gen_out = sh([hbin, 'gen', str(seed * 1000 + extra), 'thorough'], timeout=1800)
                cs = [l for l in gen_out.split('\n') if l]
                il = run_sharded([hbin, 'run'], cs, shards=prop.get('impl_shards', 1))
                _, ml = run_model(prop, hbin, drv, cs)
                cb, sv, dr, _ = evaluate(cs, il, ml, prop.get('spec_wildcard'))
                if dr:
                    found = (cs[dr[0][0]], il[dr[0][0]], ml[dr[0][0]]); break
                if sv:
                    i = min(sv, key=lambda j: len(cs[j])); found = (cs[i], il[i], ml[i]); break
        if found:
            m, s, k = split3(found[2])
            path = write_replay(pid, seed, 'input', {'property': pid, 'case': found[0], 'impl': found[1], 'model': m, 'spec': s, 'known_class': k, 'broken': broken})
            verdict_lines.append('VIOLATION property=%s replay=%s' % (pid, path))
        else:
            path = write_replay(pid, seed, 'nofail', {'property': pid, 'case': None, 'broken': broken,
                                'theorems': prop_theorems, 'note': 'property no longer shown to hold; no failing input found by the SPEC-vs-IMPL search'})
            verdict_lines.append('VIOLATION property=%s replay=%s no-failing-input-found' % (pid, path))
        violations += 1

    # ---- evidence ----
    triv = re.compile(prop.get('trivial_model_regex', r'^(BADCASE|ERR|NONE|-)?$'))
    nontriv = set()
    for c, m in zip(cases, model_lines or impl_lines):
        if not triv.match(m.split('\t')[0]):
            nontriv.add(c)
    sample_cases = []
    for i in range(0, len(cases), max(1, len(cases) // 5)):
        sample_cases.append({'case': cases[i][:600], 'impl': impl_lines[i][:300] if impl_lines else None, 'model_spec_known': model_lines[i][:300] if model_lines else None})
    outdist = {}
    for m in model_lines:
        key = m.split('\t')[0][:24]
        outdist[key] = outdist.get(key, 0) + 1
    top = dict(sorted(outdist.items(), key=lambda kv: -kv[1])[:12])
    ev = {
        'property_id': pid, 'tier': tier if tier in ('quick', 'thorough') else 'quick', 'seed': seed, 'level': 'proof',
        'coverage': {
            'obligations': max(obligations, 1), 'discharged': discharged,
            'checker_cmd': 'make -C coq %s  (coqc 8.16.1, full .vo); Print Assumptions under each theorem of %s' % (' '.join(targets), prop['coq_props']),
            'trusted_base': prop.get('trusted_base', []) + ['Coq 8.16.1 kernel + vm_compute (no native_compute)', 'axioms reported by Print Assumptions: %s' % (', '.join(axioms) if axioms else 'none (closed under the global context)'),
                             'extraction: ExtrOcamlBasic only (Extract Inductive bool/option/list/prod/unit/sumbool/sumor), ocaml/driver.ml, cross-checked by vm_compute on %d sampled cases this run' % sample_n,
                             'Rust harness harness/%s (generators, printing) and lib/vcheck.py' % prop['harness']],
            'property_theorems': prop_theorems, 'lemmas_in_dependency_closure': obligations, 'files_in_closure': closure,
            'evaluations': len(cases), 'distinct_nontrivial': len(nontriv),
            'rule': prop.get('rule', 'cases = corpus + generated (seeded); non-trivial = model result is not an error/none; distinct by case text'),
            'samples': sample_cases[:6], 'input_distribution': stats, 'model_output_distribution_top': top,
            'correspondence_disagreements': len(corr_bad), 'spec_disagreements_excused_as_known': known_hits,
            'spec_disagreements_unexcused': len(spec_viol), 'coq_vm_compute_cross_checked': sample_n,
            'known_findings_replayed': kf_lines, 'broken': broken, 'exhaustive': False,
        },
        'assumptions': prop.get('assumptions', []),
        'wall_s': round(time.time() - t0, 2), 'violations': violations,
    }
    with open(os.path.join(VERIF, 'evidence', pid + '.json'), 'w') as f:
        json.dump(ev, f, indent=1)
    for l in kf_lines:
        print(l)
    for l in verdict_lines:
        print(l)
    print('%s: theorems=%s obligations=%d discharged=%d cases=%d nontrivial=%d corr_diff=%d known_excused=%d wall=%.1fs %s'
          % (pid, ','.join(prop_theorems)[:200], obligations, discharged, len(cases), len(nontriv), len(corr_bad), known_hits, time.time() - t0,
             'OK' if not violations else 'BROKEN: ' + ' | '.join(broken)[:1500]))
    return 1 if violations else 0


if __name__ == '__main__':
    sys.exit(main(sys.argv))
