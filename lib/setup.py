#!/usr/bin/env python3
import json, os, sys
sys.path.insert(0, os.path.dirname(os.path.abspath(__file__)))
import vcheck as V

def main():
    ok, out = V.gen_data()
    print('gen_data:', 'ok' if ok else 'FAILED\n' + out)
    V.ensure_makefile()
    props = sorted(f[:-5] for f in os.listdir(os.path.join(V.VERIF, 'props')) if f.endswith('.json'))
    targets = []
    for p in props:
        c = V.load_prop(p)
        targets += [c['coq_props'][:-2] + '.vo', c['coq_extract'][:-2] + '.vo']
    rc, log = V.coq_build(sorted(set(targets)), 3000)
    print('coq make rc=%d' % rc)
    if rc != 0:
        print(log[-3000:])
    for p in props:
        c = V.load_prop(p)
        drv, out = V.build_driver(c['model_ml'])
        print('driver', p, 'ok' if drv else 'FAILED ' + out[-500:])
    with V.Lock('cargo'):
        import shutil
        hl = os.path.join(V.HARNESS, 'Cargo.lock')
        if not os.path.exists(hl):
            shutil.copy('/repo/Cargo.lock', hl)
        rc2, out = V.sh(['cargo', 'build', '--release', '--offline', '--workspace', '--keep-going'], cwd=V.HARNESS, timeout=3000)
    print('cargo build rc=%d' % rc2)
    if rc2 != 0:
        print(out[-3000:])
    return 0

if __name__ == '__main__':
    sys.exit(main())
